#!/usr/bin/env python3
"""Sensitivity / specificity audit (DESIGN section 8).

Copies /repo to a scratch directory outside /repo and /verif, applies ONE edit (a realistic break or a
property-preserving refactor), optionally checks the repository's own suite is still green there, runs
the named checks with VERIF_REPO pointing at the copy, and deletes the copy.

  tools/mutation_audit.py list
  tools/mutation_audit.py run [name ...] [--tests] [--tier quick] [--all]
Mutations live in tools/mutations.json: {name: {file, old, new, count?, expect: {"C01": "VIOLATION"|"PASS"}, kind: break|refactor, note}}
A mutation may also be {"patch": "seeded/<id>/patch.diff", ...}.
"""
import json
import os
import shutil
import subprocess
import sys
import tempfile
import time

HERE = os.path.dirname(os.path.dirname(os.path.abspath(__file__)))
MUT = os.path.join(HERE, "tools", "mutations.json")


def apply(root, m):
    if "patch" in m:
        p = subprocess.run(["git", "apply", "--unsafe-paths", "-p1", "--directory", root, os.path.join(HERE, m["patch"])],
                           capture_output=True, text=True, cwd="/")
        if p.returncode != 0:
            p = subprocess.run(["patch", "-p1", "-d", root, "-i", os.path.join(HERE, m["patch"])], capture_output=True, text=True)
            if p.returncode != 0:
                raise RuntimeError("patch failed: " + p.stdout + p.stderr)
        return
    edits = m["edits"] if "edits" in m else [m]
    for e in edits:
        path = os.path.join(root, e["file"])
        s = open(path).read()
        cnt = s.count(e["old"])
        if cnt != e.get("count", 1):
            raise RuntimeError(f"{e['file']}: expected {e.get('count', 1)} occurrence(s) of the old text, found {cnt}")
        open(path, "w").write(s.replace(e["old"], e["new"]))


def run_one(name, m, tests, tier, only=None):
    root = tempfile.mkdtemp(prefix="hxv-mut-", dir="/tmp")
    res = {"name": name, "kind": m.get("kind", "break")}
    try:
        shutil.copytree("/repo", os.path.join(root, "r"), ignore=shutil.ignore_patterns(".git", "__pycache__", ".pytest_cache"))
        r = os.path.join(root, "r")
        try:
            apply(r, m)
        except RuntimeError as e:
            res["stale"] = str(e)[:200]
            res["checks"] = {}
            return res
        if tests:
            p = subprocess.run(["/venv/bin/python", "-m", "pytest", "-q", "-p", "no:cacheprovider", "-x", "-n", "8"], cwd=r,
                               capture_output=True, text=True, env=dict(os.environ, PYTHONDONTWRITEBYTECODE="1"))
            res["tests"] = p.stdout.strip().splitlines()[-1] if p.stdout.strip() else p.stderr[-200:]
        for prop, expect in m["expect"].items():
            if only and prop not in only:
                continue
            t0 = time.time()
            p = subprocess.run([os.path.join(HERE, "check"), prop, "--tier", tier], capture_output=True, text=True,
                               env=dict(os.environ, VERIF_REPO=r, VERIF_NO_EVIDENCE="1"))
            got = "VIOLATION" if (p.returncode == 1 and "VIOLATION property=" in p.stdout) else ("PASS" if p.returncode == 0 else f"EXIT{p.returncode}")
            sigs = [ln.strip()[:160] for ln in p.stdout.splitlines() if ln.strip().startswith("witness[")]
            res[prop] = {"expect": expect, "got": got, "ok": got == expect, "wall": round(time.time() - t0, 1), "sigs": sigs[:3]}
            if got.startswith("EXIT"):
                res[prop]["tail"] = p.stdout[-300:] + p.stderr[-300:]
    finally:
        shutil.rmtree(root, ignore_errors=True)
    return res


def main():
    muts = json.load(open(MUT))
    args = sys.argv[1:]
    if not args or args[0] == "list":
        for k, m in muts.items():
            print(f"{k:40s} {m.get('kind', 'break'):8s} {m['expect']}  {m.get('note', '')}")
        return
    tests = "--tests" in args
    tier = "quick"
    if "--tier" in args:
        tier = args[args.index("--tier") + 1]
    only = None
    if "--only" in args:
        only = args[args.index("--only") + 1].split(",")
    names = [a for a in args[1:] if not a.startswith("--") and a not in (tier,) and (only is None or a != ",".join(only))]
    if "--all" in args or not names:
        names = list(muts)
    bad = 0
    for n in names:
        r = run_one(n, muts[n], tests, tier, only)
        flags = []
        for k, v in r.items():
            if isinstance(v, dict) and "ok" in v:
                flags.append(f"{k}:{v['got']}{'' if v['ok'] else '(!expected ' + v['expect'] + ')'}[{v['wall']}s]")
                if not v["ok"]:
                    bad += 1
                    print("   ", v.get("sigs"), v.get("tail", ""))
        if r.get("stale"):
            bad += 1
            flags.append("STALE: " + r["stale"])
        print(f"{n:40s} {r.get('tests', ''):28s} " + " ".join(flags), flush=True)
    print("MISMATCHES:", bad)
    sys.exit(1 if bad else 0)


if __name__ == "__main__":
    main()
