#!/usr/bin/env python3
"""Regenerates the markdown tables of DESIGN.md appendix C (own mutation audit) and D (seeded changes from sub-agents)."""
import json, os, glob
HERE = os.path.dirname(os.path.dirname(os.path.abspath(__file__)))
mu = json.load(open(os.path.join(HERE, "tools", "mutations.json")))
print("### C.1 Breaks (each must be reported by the checks listed)\n")
print("| mutation | where | expected verdicts | note |\n|---|---|---|---|")
for k, m in mu.items():
    if m.get("kind", "break") != "break":
        continue
    f = m.get("file") or ", ".join(e["file"] for e in m.get("edits", []))
    print(f"| `{k}` | `{f}` | {', '.join(f'{c}:{v}' for c, v in m['expect'].items())} | {m.get('note', '')} |")
print("\n### C.2 Property-preserving refactors (every listed check must stay silent)\n")
print("| refactor | where | checks run | note |\n|---|---|---|---|")
for k, m in mu.items():
    if m.get("kind") != "refactor":
        continue
    f = m.get("file") or ", ".join(sorted({e["file"] for e in m.get("edits", [])}))
    ex = m["expect"]
    print(f"| `{k}` | `{f}` | {'all 20' if len(ex) == 20 else ', '.join(ex)} | {m.get('note', '')} |")
print("\n### D. Seeded changes written by independent sub-agents\n")
print("| id | what breaks | needs to manifest | caught by | history |\n|---|---|---|---|---|")
for d in sorted(glob.glob(os.path.join(HERE, "seeded", "*"))):
    m = json.load(open(os.path.join(d, "meta.json")))
    caught = ", ".join(f"{c}" for c, r in m["checks"].items() if r["verdict"] == "VIOLATION") or "-"
    if m.get("obsolete"):
        m["history"] = (m.get("history", "") + " OBSOLETE: " + m["obsolete"]).strip()
    missed = ", ".join(f"{c}" for c, r in m["checks"].items() if r["verdict"] != "VIOLATION")
    cut = lambda t, n: (t if len(t) <= n else t[:n].rsplit(" ", 1)[0] + " ...").replace("|", "/")  # noqa: E731
    print(f"| {os.path.basename(d)} | {cut(m.get('what_breaks', ''), 330)} | {cut(m.get('needs_to_manifest', ''), 260)} | {caught}{' (silent: ' + missed + ')' if missed else ''} | {m.get('history', 'caught by the first version')} |")
