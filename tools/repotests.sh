#!/bin/sh
# the repository's own suite, hooks off (there are none), against ${1:-/repo}
cd "${1:-/repo}" && /venv/bin/python -m pytest -q -p no:cacheprovider --timeout=900 -n 8 2>&1 | tail -5
