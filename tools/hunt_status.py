#!/usr/bin/env python3
"""Runs every demonstration the round-6 bug hunters delivered (hunt/Hxx/*.py; `hunt_status.py hunt2` for the second hunt) against /repo's current tree and prints its exit
status next to the recorded disposition (hunt/TRIAGE.json). A demo of a repaired defect must exit 0 now."""
import json, os, subprocess, sys
HERE = os.path.dirname(os.path.dirname(os.path.abspath(__file__)))
HUNT = sys.argv[1] if len(sys.argv) > 1 else "hunt"
tri = json.load(open(os.path.join(HERE, HUNT, "TRIAGE.json")))
bad = 0
for key in sorted(tri):
    d, f = key.split("/")
    p = subprocess.run(["/venv/bin/python", "-B", f], cwd=os.path.join(HERE, HUNT, d), capture_output=True, text=True, timeout=900,
                       env=dict(os.environ, PYTHONPATH=os.environ.get("VERIF_REPO", "/repo")))
    disp = tri[key]["disposition"]
    expect0 = disp.startswith("fixed")
    ok = (p.returncode == 0) == expect0 or not (disp.startswith("fixed") or disp.startswith("known"))
    bad += 0 if ok else 1
    print(f"{key:24s} exit={p.returncode} {'' if ok else 'UNEXPECTED '}{disp}")
sys.exit(1 if bad else 0)
