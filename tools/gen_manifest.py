#!/usr/bin/env python3
"""Writes MANIFEST.json from the property modules that exist (keeps it valid at all times)."""
import json
import os
import sys

HERE = os.path.dirname(os.path.dirname(os.path.abspath(__file__)))
sys.path.insert(0, HERE)
META = json.load(open(os.path.join(HERE, "tools", "manifest_meta.json")))
props = [json.loads(l) for l in open(os.path.join(HERE, "properties.jsonl"))]
checks, na = [], []
for p in props:
    pid = p["id"]
    m = META["checks"].get(pid)
    if not m or not os.path.exists(os.path.join(HERE, "hxv", "props", pid.lower() + ".py")):
        na.append({"property_id": pid, "reason": META.get("not_applicable", {}).get(pid, "check not built yet in this revision; runtime monitoring does apply (DESIGN.md section 5) and the check is planned")})
        continue
    checks.append({
        "property_id": pid,
        "quick_cmd": f"./check {pid} --tier quick",
        "thorough_cmd": f"./check {pid} --tier thorough",
        "evidence_file": f"evidence/{pid}.json",
        "replay_cmd_template": f"./check {pid} --replay {{path}}",
        "engine": "hxv",
        "level_claimed": {"category": "exploration", "text": m["text"], "design_ref": m.get("design_ref", f"DESIGN.md section 5, {pid}")},
        "level_note": m["note"],
        "technique": m["technique"],
    })
doc = {
    "version": 1,
    "setup_cmd": "./setup.sh",
    "hooks": {
        "guard": "HEXITAL_VERIF",
        "enable": "none needed: every monitor is attached from the harness at run time (class-attribute patching, list subclassing, sys.monitoring); the guard name is reserved and unused",
        "baseline_off_cmd": "cd /repo && /venv/bin/python -m pytest -ra -q -p no:cacheprovider --timeout=900 --continue-on-collection-errors",
        "source_commits": [],
        "add_only": True,
    },
    "engines": [{"name": "hxv", "path": "hxv/", "serves_properties": [c["property_id"] for c in checks],
                 "kind_free_text": "runtime monitoring: seeded hostile workloads drive the real classes; state recorder, candle-access tracer, sys.monitoring work meter, write contracts and offline history checkers decide"}],
    "checks": checks,
    "notes": META["notes"],
    "not_applicable": na,
}
json.dump(doc, open(os.path.join(HERE, "MANIFEST.json"), "w"), indent=1)
print("checks:", [c["property_id"] for c in checks], "not_applicable:", [n["property_id"] for n in na])
