#!/bin/sh
# tools/sweep.sh <tier> <seed> [<seed> ...]   - every check, fresh processes; prints one line per (check, seed)
cd "$(dirname "$0")/.."
tier=$1; shift
rc=0
for seed in "$@"; do
  for p in C01 C02 C03 C04 C05 C06 C07 C08 C09 C10 C11 C12 C13 C14 C15 C16 C17 C18 C19 C20; do
    if [ "${SWEEP_NO_EVIDENCE:-1}" = "0" ]; then out=$(./check $p --tier $tier --seed $seed 2>&1); code=$?; else out=$(VERIF_NO_EVIDENCE=1 ./check $p --tier $tier --seed $seed 2>&1); code=$?; fi
    echo "$out" | grep -E "^$p tier=" | sed "s/^/[exit $code] /"
    if [ $code -ne 0 ]; then rc=1; echo "$out" | grep -E "VIOLATION|INCONCLUSIVE|witness" | cut -c1-400; fi
  done
done
exit $rc
