#!/usr/bin/env python3
"""tools/add_fixed.py <props comma-sep> <commit> <what failed>  - append a 'fixed' entry (documentation only; suppresses nothing)."""
import json, sys, os
p = os.path.join(os.path.dirname(os.path.dirname(os.path.abspath(__file__))), "known_findings.json")
d = json.load(open(p))
props, commit, what = sys.argv[1], sys.argv[2], sys.argv[3]
for prop in props.split(","):
    d["findings"].append({"property": prop, "status": "fixed", "commit": commit, "what": what,
                          "line": f"fixed: property={prop} {commit} {what}"})
json.dump(d, open(p, "w"), indent=1)
