#!/usr/bin/env python3
"""tools/ingest_seed.py <Cxx> <A|B> [--checks C01,C02|all] [--tier quick]

Confirms a sub-agent's seeded change independently and files it under seeded/<Cxx>-<v>/:
  1. scratch copy of /repo (outside /repo and /verif) + the patch  -> repository suite must stay green (325 passed)
  2. demo fails with the patch, passes without it
  3. the named checks are run against the patched copy (VERIF_REPO) and their verdicts recorded
Nothing is ever applied to /repo itself; the scratch copies are removed.
"""
import json
import os
import shutil
import subprocess
import sys
import tempfile
import time

HERE = os.path.dirname(os.path.dirname(os.path.abspath(__file__)))
ALL = [f"C{i:02d}" for i in range(1, 21)]


def sh(cmd, cwd=None, env=None, timeout=3600):
    p = subprocess.run(cmd, cwd=cwd, env=env, capture_output=True, text=True, timeout=timeout)
    return p.returncode, p.stdout + p.stderr


def copy_repo(dst):
    shutil.copytree("/repo", dst, ignore=shutil.ignore_patterns(".git", "__pycache__", ".pytest_cache"))


def main():
    pid, var = sys.argv[1], sys.argv[2]
    checks = [pid]
    tier = "quick"
    if "--checks" in sys.argv:
        c = sys.argv[sys.argv.index("--checks") + 1]
        checks = ALL if c == "all" else c.split(",")
    if "--tier" in sys.argv:
        tier = sys.argv[sys.argv.index("--tier") + 1]
    src = sys.argv[sys.argv.index("--from") + 1] if "--from" in sys.argv else f"/tmp/wt-{pid}"
    patch, demo = os.path.join(src, f"variant{var}.diff"), os.path.join(src, f"demo{var}.py")
    label = sys.argv[sys.argv.index("--as") + 1] if "--as" in sys.argv else var
    out_dir = os.path.join(HERE, "seeded", f"{pid}-{label}")
    if not os.path.exists(patch) and os.path.exists(os.path.join(out_dir, "patch.diff")):
        patch, demo = os.path.join(out_dir, "patch.diff"), os.path.join(out_dir, "demo.py")
    root = tempfile.mkdtemp(prefix="hxv-seed-", dir="/tmp")
    prop = sys.argv[sys.argv.index("--prop") + 1] if "--prop" in sys.argv else pid
    meta = {"property": prop, "variant": f"{pid}-{label}" if prop != pid else label, "ran": []}
    env = dict(os.environ, PYTHONDONTWRITEBYTECODE="1")
    try:
        clean, mut = os.path.join(root, "clean"), os.path.join(root, "mut")
        copy_repo(clean)
        copy_repo(mut)
        code, out = sh(["patch", "-p1", "-i", patch], cwd=mut)
        if code != 0:
            print("PATCH FAILED", out)
            sys.exit(2)
        shutil.copy(demo, os.path.join(clean, "demo_seed.py"))
        shutil.copy(demo, os.path.join(mut, "demo_seed.py"))
        code, out = sh(["/venv/bin/python", "-m", "pytest", "-q", "-p", "no:cacheprovider", "-n", "8"], cwd=mut, env=env)
        meta["tests_with_patch"] = out.strip().splitlines()[-1] if out.strip() else ""
        meta["ran"].append("pytest -q -p no:cacheprovider -n 8 (scratch copy with patch)")
        c1, o1 = sh(["/venv/bin/python", "demo_seed.py"], cwd=mut, env=env, timeout=600)
        c0, o0 = sh(["/venv/bin/python", "demo_seed.py"], cwd=clean, env=env, timeout=600)
        meta["demo_with_patch_exit"], meta["demo_without_patch_exit"] = c1, c0
        meta["demo_with_patch_tail"] = o1.strip()[-300:]
        meta["ran"].append("python demo.py in patched copy and in clean copy")
        valid = "325 passed" in meta["tests_with_patch"] and c1 != 0 and c0 == 0
        meta["valid"] = valid
        meta["checks"] = {}
        for chk in checks:
            t0 = time.time()
            code, out = sh([os.path.join(HERE, "check"), chk, "--tier", tier], env=dict(env, VERIF_REPO=mut, VERIF_NO_EVIDENCE="1"), timeout=3600)
            got = "VIOLATION" if (code == 1 and "VIOLATION property=" in out) else ("PASS" if code == 0 else f"EXIT{code}")
            sigs = [ln.strip()[:220] for ln in out.splitlines() if ln.strip().startswith("witness[")][:3]
            meta["checks"][chk] = {"verdict": got, "wall_s": round(time.time() - t0, 1), "witnesses": sigs}
            if got.startswith("EXIT"):
                meta["checks"][chk]["tail"] = out[-400:]
            meta["ran"].append(f"VERIF_REPO=<patched copy> ./check {chk} --tier {tier}")
        os.makedirs(out_dir, exist_ok=True)
        if os.path.abspath(patch) != os.path.abspath(os.path.join(out_dir, "patch.diff")):
            shutil.copy(patch, os.path.join(out_dir, "patch.diff"))
            shutil.copy(demo, os.path.join(out_dir, "demo.py"))
        old = {}
        mp = os.path.join(out_dir, "meta.json")
        if os.path.exists(mp):
            old = json.load(open(mp))
        for k in ("needs_to_manifest", "what_breaks", "source"):
            if k in old:
                meta[k] = old[k]
        if old.get("checks"):
            merged = dict(old["checks"])
            merged.update(meta["checks"])
            meta["checks"] = merged
        json.dump(meta, open(mp, "w"), indent=1)
        print(json.dumps({k: meta[k] for k in ("property", "variant", "valid", "tests_with_patch", "demo_with_patch_exit", "demo_without_patch_exit")}))
        for chk, r in meta["checks"].items():
            if chk in checks:
                print(f"  {chk}: {r['verdict']} [{r['wall_s']}s] {r['witnesses'][:1]}")
    finally:
        shutil.rmtree(root, ignore_errors=True)


if __name__ == "__main__":
    main()
