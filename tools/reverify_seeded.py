#!/usr/bin/env python3
"""Re-runs, for every seeded change, the checks that are recorded as catching it (and the property's own check), against a
scratch copy with the patch applied. Prints one line per change; exit 1 if a change that used to be caught is silent now."""
import glob, json, os, subprocess, sys
HERE = os.path.dirname(os.path.dirname(os.path.abspath(__file__)))
only = sys.argv[1:]
bad = 0
for d in sorted(glob.glob(os.path.join(HERE, "seeded", "*"))):
    name = os.path.basename(d)
    if only and not any(name.startswith(o) for o in only):
        continue
    m = json.load(open(os.path.join(d, "meta.json")))
    if m.get("obsolete"):
        print(f"{name:8s} obsolete: {m['obsolete'][:120]}", flush=True)
        continue
    pid, var = name.split("-")
    caught = [c for c, r in m["checks"].items() if r["verdict"] == "VIOLATION"]
    checks = sorted(set(caught))
    cmd = [sys.executable, os.path.join(HERE, "tools", "ingest_seed.py"), pid, var, "--prop", m["property"], "--checks", ",".join(checks)]
    p = subprocess.run(cmd, capture_output=True, text=True)
    if p.returncode != 0 or "PATCH FAILED" in p.stdout:
        print(f"{name:8s} REGRESSION patch no longer applies to /repo (rebase seeded/{name}/patch.diff or mark it obsolete)", flush=True)
        bad += 1
        continue
    m2 = json.load(open(os.path.join(d, "meta.json")))
    now = {c: m2["checks"][c]["verdict"] for c in checks}
    ok = m2.get("valid") and all(v == "VIOLATION" for v in now.values())
    print(f"{name:8s} {'ok ' if ok else 'REGRESSION'} valid={m2.get('valid')} {now}", flush=True)
    bad += 0 if ok else 1
print("REGRESSIONS:", bad)
sys.exit(1 if bad else 0)
