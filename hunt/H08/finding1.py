"""C09 (calculation is total) - ROC raises ZeroDivisionError on zero-volume candles.

ROC(input_value="volume") is the classic "Volume Rate of Change".  The stream below is
well formed (finite positive prices, low <= open,close <= high, volume >= 0 - here even
volume > 0 on every supplied candle -, increasing timestamps, period >= 2).  The only
zero-volume candles are the flat fill candles that timeframe_fill itself inserts into the
two-minute hole.  As soon as such a candle is `period` bars back, append() raises.

Part B shows the same on the base timeframe with an explicit zero-volume candle.

exit 0 = property held, exit 1 = violated
"""
import sys
from datetime import datetime, timedelta

from hexital import ROC, Candle

T0 = datetime(2024, 1, 1, 9, 0, 0)
violations = 0


def candle(minute, price, volume):
    return Candle(open=price, high=price + 1, low=price - 1, close=price + 0.5, volume=volume,
                  timestamp=T0 + timedelta(minutes=minute))


# ---- Part A: every supplied candle has volume > 0, gap filling creates the zero ---------
minutes = [1, 2, 3, 6, 7, 8, 9]          # minutes 4 and 5 are missing -> two fill candles
roc = ROC(period=2, input_value="volume", timeframe="T1", timeframe_fill=True)
try:
    for k, m in enumerate(minutes):
        roc.append(candle(m, 100 + k, 50 + k))
    print("A: no exception; readings:", roc.as_list())
except Exception as exc:  # noqa: BLE001
    violations += 1
    print(f"A: append() of the candle at minute {m} raised {type(exc).__name__}: {exc}")
    print("   collapsed volumes:", [c.volume for c in roc.candles])

# ---- Part B: base timeframe, one zero-volume candle, batch calculate() ------------------
vols = [10, 0, 12, 13, 14]
roc = ROC(period=2, input_value="volume", candles=[candle(k, 100 + k, v) for k, v in enumerate(vols)])
try:
    roc.calculate()
    print("B: no exception; readings:", roc.as_list())
except Exception as exc:  # noqa: BLE001
    violations += 1
    print(f"B: calculate() raised {type(exc).__name__}: {exc}   (volumes {vols})")

print("C09 VIOLATED" if violations else "C09 held")
sys.exit(1 if violations else 0)
