"""C10 / C06 (found while hunting C09) - VWAP reads 0.0 while the cumulative volume is zero.

A stream may legitimately open with zero-volume candles (C09 names them explicitly).  VWAP is
a volume-weighted *average of the typical price*, so whatever convention is chosen for the
0/0 case (no reading yet, or the plain typical price - VWMA falls back to the unweighted mean
in the same situation), a reading must lie inside the range of the prices it averages.
The library stores pv (= 0.0) as the reading: a "price" of 0.0 for an instrument trading at 100.

exit 0 = property held, exit 1 = violated
"""
import sys
from datetime import datetime, timedelta

from hexital import VWAP, VWMA, Candle

T0 = datetime(2024, 1, 1, 9, 0)
vols = [0, 0, 0, 5, 7]
candles = [Candle(open=100 + k, high=101 + k, low=99 + k, close=100.5 + k, volume=v, timestamp=T0 + timedelta(minutes=k))
           for k, v in enumerate(vols)]
vwap = VWAP(candles=candles)
vwap.calculate()
vwma = VWMA(period=2, candles=candles)
vwma.calculate()
print("volumes      :", vols)
print("typical price:", [round((c.high + c.low + c.close) / 3, 4) for c in candles])
print("VWAP readings:", vwap.as_list())
print("VWMA_2       :", vwma.as_list(), "(zero-volume window -> unweighted mean, for comparison)")

bad = []
lo, hi = float("inf"), float("-inf")
for k, c in enumerate(candles):
    lo, hi = min(lo, c.low), max(hi, c.high)
    r = c.indicators[vwap.name]
    if r is not None and not (lo - 1e-4 <= r <= hi + 1e-4):
        bad.append((k, r, (lo, hi)))
for k, r, rng in bad:
    print(f"index {k}: VWAP {r} outside the range {rng} of all prices seen so far")
print("C10 VIOLATED" if bad else "C10 held")
sys.exit(1 if bad else 0)
