"""C04 / C10 - SMA drifts away from the window mean without bound (and drags STOCH %K/%D
outside [0, 100]).

SMA._calculate_reading() updates the *stored, already rounded* previous reading
    new = prev - (x[t-period] - x[t]) / period
and the result is rounded again, so every candle adds a fresh rounding error of up to half a
unit of `round_value` that is never removed.  The error is a random walk on ordinary data and
grows linearly on a slow ramp; it is not bounded by anything the configured rounding "can
introduce" to a window mean (half a unit).

Part A  slow ramp, default round_value=4: the SMA never moves at all.
Part B  ordinary 5-decimal random-walk prices, default rounding: error reaches dozens of
        rounding units and most readings lie outside [min, max] of the window they average.
Part C  STOCH (its %K and %D are internal SMAs): readings leave [0, 100].

Reference = textbook sum(window)/period computed from the raw candles.
exit 0 = property held, exit 1 = violated
"""
import random
import sys
from datetime import datetime, timedelta

from hexital import SMA, STOCH, Candle

T0 = datetime(2024, 1, 1)
UNIT = 1e-4            # one unit of the default round_value=4
violations = 0


def check_sma(tag, candles, period):
    global violations
    sma = SMA(period=period, candles=candles)
    sma.calculate()
    worst, worst_i, outside = 0.0, None, 0
    for i in range(period - 1, len(candles)):
        window = [c.close for c in candles[i - period + 1 : i + 1]]
        got = candles[i].indicators[sma.name]
        err = abs(got - sum(window) / period)
        if err > worst:
            worst, worst_i = err, i
        if got < min(window) - UNIT or got > max(window) + UNIT:   # a full unit of slack
            outside += 1
    print(f"{tag}: SMA_{period} over {len(candles)} candles: worst |SMA - mean(window)| = {worst:.6f} "
          f"= {worst / UNIT:.1f} rounding units (index {worst_i}); "
          f"{outside} readings outside [min(window)-1e-4, max(window)+1e-4]")
    i = len(candles) - 1
    print(f"     last window closes {[c.close for c in candles[i - period + 1:]]} -> library SMA {candles[i].indicators[sma.name]}")
    if worst > 2 * UNIT or outside:
        violations += 1


# ---- Part A: slow ramp -------------------------------------------------------------------
ramp = [Candle(open=p, high=p, low=p, close=p, volume=1, timestamp=T0 + timedelta(minutes=t))
        for t, p in ((t, round(1.0 + 0.00001 * t, 5)) for t in range(1000))]
check_sma("A", ramp, 3)

# ---- Part B: ordinary random walk, prices quoted with 5 decimals -----------------------------
rng = random.Random(0)
price, walk = 1.1, []
for t in range(6000):
    o = price
    price = round(price * (1 + rng.gauss(0, 0.0003)), 5)
    h = round(max(o, price) + abs(rng.gauss(0, 0.0002)), 5)
    l = round(min(o, price) - abs(rng.gauss(0, 0.0002)), 5)
    walk.append(Candle(open=o, high=h, low=l, close=price, volume=rng.randint(1, 100), timestamp=T0 + timedelta(minutes=t)))
check_sma("B", walk, 3)
check_sma("B", [Candle(open=c.open, high=c.high, low=c.low, close=c.close, volume=c.volume, timestamp=c.timestamp) for c in walk], 20)

# ---- Part C: STOCH on a saw-tooth with 2-decimal prices --------------------------------------
rng = random.Random(7)
price, saw = 100.0, []
for t in range(3000):
    up = (t // 6) % 2 == 0
    o = price
    price = max(round(price + (1 if up else -1) * rng.uniform(0.1, 1.0), 2), 5.0)
    saw.append(Candle(open=o, high=max(o, price), low=min(o, price), close=price, volume=10, timestamp=T0 + timedelta(minutes=t)))
st = STOCH(period=3, slow_period=3, smoothing_k=3, candles=saw)
st.calculate()
ks = [c.indicators[st.name]["k"] for c in saw if c.indicators[st.name]["k"] is not None]
ds = [c.indicators[st.name]["d"] for c in saw if c.indicators[st.name]["d"] is not None]
print(f"C: STOCH_3 %K range [{min(ks)}, {max(ks)}], %D range [{min(ds)}, {max(ds)}]; last reading {saw[-1].indicators[st.name]}")
print(f"     (last three raw %stoch values are {[c.indicators[st.name]['stoch'] for c in saw[-3:]]}, so %K must be 0.0)")
if min(ks) < -UNIT or max(ks) > 100 + UNIT or min(ds) < -UNIT or max(ds) > 100 + UNIT:
    violations += 1

print("C04/C10 VIOLATED" if violations else "C04/C10 held")
sys.exit(1 if violations else 0)
