"""C08 - a member with its own timeframe inside a Hexital that has a Hexital-level timeframe
is seeded from the *already collapsed* base candles instead of from the stream.

Hexital._validate_indicators() builds the candle manager of a member timeframe from
Hexital._raw_candles(), which is a copy of the DEFAULT manager's candles.  When the Hexital
itself has `timeframe=...`, those candles are no longer the stream but its collapsed form
(bucket-end labels, merged OHLCV).  Candles appended later reach the member manager raw.
Consequences, each checked against a standalone twin fed the same stream:

Part A  candles given at construction: the T1 member of a T5 Hexital holds T5 candles
        (8 instead of 40) - different candles and readings than the standalone EMA(timeframe="T1"),
        and different from the same Hexital fed through append().
Part B  non-multiple timeframes (Hexital T10, member T15): same number of candles but wrong
        OHLCV/readings, because T10 buckets straddle the T15 edges.
Part C  candles partly at construction, partly appended: the member manager's last candle
        carries the future bucket-end label of the Hexital timeframe, so the next raw candle
        is "older" than it and Hexital.append() raises InvalidCandleOrder.

exit 0 = property held, exit 1 = violated
"""
import sys
from datetime import datetime, timedelta

from hexital import EMA, Candle, Hexital

T0 = datetime(2024, 1, 1, 9, 0, 0)
violations = 0


def stream(n):
    out = []
    for k in range(n):
        base = 100 + (k * 7) % 13 + k * 0.25
        out.append(Candle(open=base, high=base + 2, low=base - 1.5, close=base + ((k * 5) % 3) - 1, volume=10 + k,
                          timestamp=T0 + timedelta(minutes=k + 1)))
    return out


def view(indicator):
    return [(c.timestamp.strftime("%H:%M"), c.open, c.high, c.low, c.close, c.volume, c.indicators.get(indicator.name))
            for c in indicator.candles]


def compare(tag, member, twin):
    global violations
    a, b = view(member), view(twin)
    if a == b:
        print(f"{tag}: member == standalone twin ({len(a)} candles)")
        return
    violations += 1
    diff = next((i for i, (x, y) in enumerate(zip(a, b)) if x != y), min(len(a), len(b)))
    print(f"{tag}: member has {len(a)} candles, standalone twin has {len(b)}; first difference at index {diff}:")
    print(f"     member : {a[diff] if diff < len(a) else None}")
    print(f"     twin   : {b[diff] if diff < len(b) else None}")


# ---- Part A: Hexital T5, member T1, candles at construction -----------------------------
hx = Hexital("A", stream(40), [EMA(period=3, timeframe="T1")], timeframe="T5")
hx.calculate()
twin = EMA(period=3, timeframe="T1", candles=stream(40))
twin.calculate()
compare("A (construction)", hx.indicator("EMA_3_T1"), twin)
hx2 = Hexital("A2", [], [EMA(period=3, timeframe="T1")], timeframe="T5")
hx2.append(stream(40))
compare("A (append)      ", hx2.indicator("EMA_3_T1"), twin)

# ---- Part B: Hexital T10, member T15 --------------------------------------------------------
hx = Hexital("B", stream(60), [EMA(period=3, timeframe="T15")], timeframe="T10")
hx.calculate()
twin = EMA(period=3, timeframe="T15", candles=stream(60))
twin.calculate()
compare("B (construction)", hx.indicator("EMA_3_T15"), twin)

# ---- Part C: Hexital T10, member T2, 6 candles at construction then append the 7th -------------
s = stream(7)
hx = Hexital("C", s[:6], [EMA(period=3, timeframe="T2")], timeframe="T10")
hx.calculate()
try:
    hx.append(s[6])
    twin = EMA(period=3, timeframe="T2", candles=stream(7))
    twin.calculate()
    compare("C (mixed)       ", hx.indicator("EMA_3_T2"), twin)
except Exception as exc:  # noqa: BLE001
    violations += 1
    print(f"C (mixed)       : Hexital.append() raised {type(exc).__name__}: {str(exc)[:110]}...")

print("C08 VIOLATED" if violations else "C08 held")
sys.exit(1 if violations else 0)
