"""Reproduces the BORDERLINE observations listed in FINDINGS.md (always exits 0)."""
import random
import statistics
from datetime import datetime, timedelta

from hexital import ADX, EMA, WMA, Candle, StandardDeviation
from hexital.analysis import movement, patterns

T0 = datetime(2024, 1, 1, 9, 0)


def flat(v, k=0, vol=1):
    return Candle(open=v, high=v, low=v, close=v, volume=vol, timestamp=T0 + timedelta(minutes=k))


# B1 highestbar/lowestbar with no reading at all in the window -> 0 (highest() gives None)
cs = [flat(1, k) for k in range(5)]
print("B1 highestbar on a name nobody wrote:", movement.highestbar(cs, "nope", 4), "| highest:", movement.highest(cs, "nope", 4))

# B2 doji: docstring says "10 previous candles", code averages candles i-9..i (own range included)
hist = [Candle(open=100, high=200, low=100, close=100.05, volume=1)] + [Candle(open=100, high=100.1, low=100, close=100.05, volume=1) for _ in range(9)]
cand = Candle(open=100, high=100.4, low=100, close=100.4, volume=1)
prev10 = sum(c.high - c.low for c in hist) / 10
print(f"B2 body {cand.realbody:.2f} vs 10% of avg range of the 10 previous candles {0.1 * prev10:.3f} -> documented doji; library says", patterns.doji(hist + [cand]))

# B3 rolling STDEV float drift at a 1e6 price scale: flat window, sigma should be 0
rng = random.Random(5)
cs = []
for k in range(600):
    p = 1e6 * (1 + rng.uniform(-0.3, 0.3)) if k < 500 else 1e6
    cs.append(flat(p, k))
sd = StandardDeviation(period=5, candles=cs)
sd.calculate()
print("B3 STDEV_5 of five identical closes (1e6):", sd.reading(), "| statistics.pstdev:", statistics.pstdev([c.close for c in cs[-5:]]))

# B4 lifespan window (in time) shrinks below the look-back after a pause in the data:
#    outside C15's quantifier, but append() raises / wraps around instead of reading None
for pause in (4, 5):
    w = WMA(period=5, candles_lifespan=timedelta(minutes=5))
    minutes = list(range(6)) + [5 + pause]
    try:
        for k in minutes:
            w.append(Candle(open=10 + k, high=11 + k, low=9 + k, close=10 + k, volume=1, timestamp=T0 + timedelta(minutes=k)))
        print(f"B4 pause {pause} min: retained closes {[c.close for c in w.candles]} WMA_5 {w.as_list()}")
    except Exception as exc:  # noqa: BLE001
        print(f"B4 pause {pause} min: WMA(period=5, lifespan=5min).append raised", type(exc).__name__, exc)

# B5 reading() on an indicator without candles
try:
    print("B5", EMA().reading())
except Exception as exc:  # noqa: BLE001
    print("B5 EMA().reading() raised", type(exc).__name__, "| has_reading:", EMA().has_reading, "| prev_reading:", EMA().prev_reading())
