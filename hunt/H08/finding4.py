"""C17 - highestbar/lowestbar and value_range do not use the look-back window the property
(and their sibling functions) use: "the current candle and the `length` candles before it".

highest(c, x, length, i) / lowest(...) look at candles i-length .. i  (length+1 candles),
rising/falling/mean_* compare candle i with candles i-length .. i-1,
but highestbar(c, x, length, i) / lowestbar(...) only look at candles i-length+1 .. i, so the
bar that highest() just reported as the extreme cannot be located with the same `length`:
    candles[i - highestbar(c, x, L, i)].x  !=  highest(c, x, L, i)
and value_range(c, x, 1, i) returns None although candle i and the one candle before it both
have readings (its guard is `length < 2`), while value_range(c, x, 2, i) spans three candles.

The reference below is the literal reading of C17; no readings are missing in these lists.
exit 0 = property held, exit 1 = violated
"""
import sys

from hexital import Candle
from hexital.analysis import movement

violations = 0


def candles(closes):
    return [Candle(open=v, high=v, low=v, close=v, volume=1) for v in closes]


def window(closes, length, i):
    return closes[max(i - length, 0) : i + 1]          # current candle and `length` before it


def ref_bar(closes, length, i, pick):
    w = window(closes, length, i)
    best = pick(w)
    newest_first = list(reversed(w))
    return newest_first.index(best)                     # most recent extreme on ties


def check(tag, got, expected):
    global violations
    ok = got == expected
    violations += 0 if ok else 1
    print(f"{'ok  ' if ok else 'FAIL'} {tag}: library {got!r}, property {expected!r}")


closes = [9.0, 1.0, 2.0, 3.0, 2.5]
cs, i, L = candles(closes), 4, 4
print(f"closes = {closes}, index = {i}, length = {L}")
hi = movement.highest(cs, "close", L, i)
check("highest      ", hi, max(window(closes, L, i)))
bar = movement.highestbar(cs, "close", L, i)
check("highestbar   ", bar, ref_bar(closes, L, i, max))
check("candles[i - highestbar].close == highest", cs[i - bar].close, hi)

closes = [0.5, 4.0, 3.0, 2.0, 2.5]
cs = candles(closes)
print(f"closes = {closes}, index = {i}, length = {L}")
lo = movement.lowest(cs, "close", L, i)
check("lowest       ", lo, min(window(closes, L, i)))
bar = movement.lowestbar(cs, "close", L, i)
check("lowestbar    ", bar, ref_bar(closes, L, i, min))
check("candles[i - lowestbar].close == lowest  ", cs[i - bar].close, lo)

closes = [5.0, 7.0, 4.0]
cs = candles(closes)
print(f"closes = {closes}, index = 2")
check("value_range length=1", movement.value_range(cs, "close", 1, 2), max(closes[1:3]) - min(closes[1:3]))
check("value_range length=2", movement.value_range(cs, "close", 2, 2), max(closes[0:3]) - min(closes[0:3]))

print("C17 VIOLATED" if violations else "C17 held")
sys.exit(1 if violations else 0)
