"""C05: "rolling population standard deviation ... Bollinger Bands ... equal those definitions
computed independently from the raw candles, within rounding error".

StandardDeviation keeps a running mean and a running variance on the candles and updates
them with the add-one/remove-one formula (stdev.py, `variance += (x - removed) * (...) /
period`).  Nothing ever re-anchors the running variance, so floating-point cancellation
error (of the order eps * price^2 per step) accumulates for the whole life of the series.
It stays invisible while the true sigma is large, but the moment the window becomes quiet
(a flat market, or the flat zero-volume candles gap filling inserts) the accumulated error
IS the reading: for a window of identical closes, whose sigma is exactly 0, the library
reports (when the accumulated error happens to be positive; a negative one is clamped to 0
by the max(variance, 0.0) guard) values like 0.001-0.002 at prices of 20,000-50,000 after 3,000 candles,
0.02-0.05 at 1,000,000 and more than 1 at 100,000,000 - and that value stays for as long as the market
is flat.  BBANDS inherits
it (upper/lower differ from the middle band on a perfectly flat window).

The stream is well formed (finite positive prices, low <= open,close <= high).  Exit 1 when
the reading on a perfectly flat window differs from 0 by more than 2 rounding units (1e-4
for the default round_value=4).
"""
import random
import sys
from datetime import datetime, timedelta

from hexital import BBANDS, Candle
from hexital.indicators import StandardDeviation

violations = 0
for scale, n, seed in ((50_000.0, 3000, 1), (50_000.0, 3000, 2), (50_000.0, 3000, 3),
                       (1_000_000.0, 3000, 1), (1_000_000.0, 3000, 2), (100_000_000.0, 2000, 1)):
    for period in (2, 5):
        rng = random.Random(seed)
        t0 = datetime(2024, 1, 1)
        candles, price = [], scale
        for i in range(n):
            o = price
            c = max(scale / 100, o + rng.uniform(-scale / 100, scale / 100))
            candles.append(
                Candle(o, max(o, c) + rng.uniform(0, scale / 200), min(o, c) - rng.uniform(0, scale / 200),
                       c, rng.randint(1, 1000), timestamp=t0 + timedelta(minutes=i))
            )
            price = c
        for i in range(n, n + 3 * period):  # the market goes flat
            candles.append(Candle(price, price, price, price, 0, timestamp=t0 + timedelta(minutes=i)))

        sd = StandardDeviation(candles=candles, period=period)
        sd.calculate()
        bb = BBANDS(candles=candles, period=period)
        bb.calculate()
        reading, bands = sd.reading(), bb.reading()
        closes = [c.close for c in candles[-period:]]
        print(
            f"price~{scale:>13,.0f} seed={seed} period={period} after {n} candles + flat run: last {period} closes identical: "
            f"{len(set(closes)) == 1}; STDEV = {reading} (definition: 0), BBANDS = {bands}"
        )
        if abs(reading) > 1e-4:
            violations += 1
            print("   -> VIOLATION")

print("violations:", violations)
sys.exit(1 if violations else 0)
