"""C08 (also C03 for the member's candles): a member with its own timeframe inside a Hexital
that has a Hexital-level timeframe gets different candles depending on whether the base
candles are supplied at construction or through append().

Hexital.__init__ first collapses the base candles to the Hexital timeframe and only then
builds the member's CandleManager from a copy of those ALREADY COLLAPSED candles
(hexital.py `_raw_candles()` copies self._candles["default"].candles, which are T10 buckets
by then), while Hexital.append() hands every manager the raw candles.  So with
Hexital(timeframe="T10") and a member on "T15":
  * candles given at construction: the T15 buckets are assembled from T10 buckets - the
    09:11-09:20 bucket lands wholesale in (09:15, 09:30] although half of it belongs to
    (09:00, 09:15] - wrong OHLCV, wrong volumes, wrong readings;
  * the same candles appended (in one chunk or one by one): correct T15 buckets, identical
    to a standalone EMA(timeframe="T15") fed the same stream;
  * part at construction, rest appended, member finer than the Hexital timeframe (T5 in a
    T10 Hexital): append() raises InvalidCandleOrder.

Exit 1 when the member's candles/readings differ from the standalone twin.
"""
import random
import sys
from copy import deepcopy
from datetime import datetime, timedelta

from hexital import EMA, Candle, Hexital

rng = random.Random(1)
t0 = datetime(2024, 1, 1, 9, 0)
stream, price = [], 100.0
for i in range(60):
    o = price
    c = o + rng.uniform(-1, 1)
    stream.append(Candle(o, max(o, c) + 0.2, min(o, c) - 0.2, c, rng.randint(1, 1000), timestamp=t0 + timedelta(minutes=i)))
    price = c


def view(candles):
    return [(c.timestamp.strftime("%H:%M"), c.open, c.high, c.low, c.close, c.volume) for c in candles]


violations = 0

alone = EMA(candles=deepcopy(stream), period=3, timeframe="T15")
alone.calculate()

built = Hexital("h", deepcopy(stream), [EMA(period=3, timeframe="T15")], timeframe="T10")
built.calculate()

fed = Hexital("h", [], [EMA(period=3, timeframe="T15")], timeframe="T10")
fed.append(deepcopy(stream))

print("total volume of the stream      :", sum(c.volume for c in stream))
print("standalone T15  (time, volume)  :", [(t, v) for t, *_, v in view(alone.candles)], alone.as_list())
print("Hexital, appended               :", [(t, v) for t, *_, v in view(fed.candles('T15'))], fed.indicator("EMA_3_T15").as_list())
print("Hexital, given at construction  :", [(t, v) for t, *_, v in view(built.candles('T15'))], built.indicator("EMA_3_T15").as_list())

if view(fed.candles("T15")) != view(alone.candles) or fed.indicator("EMA_3_T15").as_list() != alone.as_list():
    violations += 1
    print("-> VIOLATION: appended Hexital member differs from standalone twin")
if view(built.candles("T15")) != view(alone.candles) or built.indicator("EMA_3_T15").as_list() != alone.as_list():
    violations += 1
    print("-> VIOLATION: member of a Hexital built with the candles differs from its standalone twin")

# finer member, candles partly at construction and partly appended
mixed = Hexital("h", deepcopy(stream[:15]), [EMA(period=3, timeframe="T5")], timeframe="T10")
try:
    mixed.append(deepcopy(stream[15:]))
    twin = EMA(candles=deepcopy(stream), period=3, timeframe="T5")
    twin.calculate()
    if view(mixed.candles("T5")) != view(twin.candles):
        violations += 1
        print("-> VIOLATION: T5 member of a T10 Hexital differs from standalone twin")
except Exception as exc:  # noqa
    violations += 1
    print("-> VIOLATION: T5 member in a T10 Hexital, 15 candles at construction then append():", type(exc).__name__)

print("violations:", violations)
sys.exit(1 if violations else 0)
