"""BORDERLINE (C04 "same when the input is another indicator", C14 "calculate() never raises
and leaves every registered indicator with the batch readings", C08).
A Hexital member that reads another member only works if it is registered AFTER its input.
Registered before it, it stores None on every candle, a later calculate() never repairs
that (the None entries count as 'calculated'), and after recalculate() the next append()
raises TypeError inside SMA."""
import random
import sys
from copy import deepcopy
from datetime import datetime, timedelta

from hexital import EMA, SMA, Candle, Hexital

rng = random.Random(1)
t0 = datetime(2024, 1, 1)
cs, p = [], 100.0
for i in range(32):
    c = p + rng.uniform(-1, 1)
    cs.append(Candle(p, max(p, c) + 0.1, min(p, c) - 0.1, c, 10, timestamp=t0 + timedelta(minutes=i)))
    p = c

good = Hexital("a", deepcopy(cs[:20]), [EMA(period=3), SMA(period=3, input_value="EMA_3")])
good.calculate()
good.append(deepcopy(cs[20:30]))
bad = Hexital("b", deepcopy(cs[:20]), [SMA(period=3, input_value="EMA_3"), EMA(period=3)])
bad.calculate()
bad.append(deepcopy(cs[20:30]))
bad.calculate()
print("input registered first :", good.reading_as_list("SMA_3")[-4:])
print("input registered second:", bad.reading_as_list("SMA_3")[-4:])
problems = int(good.reading_as_list("SMA_3") != bad.reading_as_list("SMA_3"))
bad.recalculate("SMA_3")
print("after recalculate      :", bad.reading_as_list("SMA_3")[-4:])
try:
    bad.append(deepcopy(cs[30:]))
except TypeError as exc:
    problems += 1
    print("append after recalculate raised:", repr(exc))
sys.exit(1 if problems else 0)
