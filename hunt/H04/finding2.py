"""C04 (HMA, "all round_value settings") and C05 (ATR, BBANDS, KC, Supertrend, STDEVTHRES:
"within rounding error"); also C10 "every numeric reading is rounded to the indicator's
round_value decimals" in the sense that the configured precision is not delivered.

round_value is honoured only by the outermost indicator.  Every helper series a composite
indicator builds in _initialise() (ATR's TR, BBANDS' SMA and STDEV, KC's EMA and ATR,
Supertrend's ATR/TR/HL2, HMA's three WMAs, STDEVTHRES' STDEV) is created without round_value
and therefore rounds to the default 4 decimals.  The outer indicator then computes from
4-decimal inputs, so asking for more precision (round_value=8/10), which is what one does
for instruments quoted around 0.000x, silently gives 4-decimal garbage:
  * HMA(round_value=10) simply returns its 4-decimal helper (never more than 4 decimals);
  * ATR(round_value=10) on prices near 0.0005 averages true ranges that were all rounded to
    0.0 / 0.0001;  BBANDS, KC, Supertrend follow;
  * STDEVTHRES compares the move with a sigma that was rounded to 0.0 and so flags every
    non-zero move (its answer is a bool, there is no rounding slack to hide behind).

Reference values are computed here from the raw candles with plain floats.  The program
exits 1 if a reading differs from the reference by more than 100 units of the *configured*
rounding (a single rounding can introduce 0.5 unit), or a threshold flag is wrong although
the move is not within 10% of the threshold.
"""
import math
import random
import sys
from datetime import datetime, timedelta

from hexital import ATR, BBANDS, HMA, KC, Candle, Supertrend
from hexital.indicators import StandardDeviationThreshold

RV = 10
UNIT = 10.0**-RV
P = 5
rng = random.Random(7)

# a token quoted around 0.0005, moving ~2% per candle
candles, price = [], 0.0005
for i in range(60):
    o = price
    c = max(0.0001, o * (1 + rng.uniform(-0.02, 0.02)))
    h = max(o, c) * (1 + rng.uniform(0, 0.01))
    l = min(o, c) * (1 - rng.uniform(0, 0.01))
    candles.append((o, h, l, c, rng.randint(1, 1000)))
    price = c
O, H, L, C, V = map(list, zip(*candles))
n = len(C)


def mk():
    t0 = datetime(2024, 1, 1)
    return [Candle(*row, timestamp=t0 + timedelta(minutes=i)) for i, row in enumerate(candles)]


def wma(x, p):
    out = []
    for i in range(len(x)):
        w = x[i - p + 1 : i + 1] if i >= p - 1 else [None]
        out.append(
            None if None in w else sum(v * (k + 1) for k, v in enumerate(w)) / (p * (p + 1) / 2)
        )
    return out


# references ---------------------------------------------------------------------------------
tr = [None] + [max(H[i] - L[i], abs(H[i] - C[i - 1]), abs(L[i] - C[i - 1])) for i in range(1, n)]
atr = [None] * n
for i in range(P, n):
    atr[i] = sum(tr[1 : P + 1]) / P if i == P else (atr[i - 1] * (P - 1) + tr[i]) / P
sma = [None if i < P - 1 else sum(C[i - P + 1 : i + 1]) / P for i in range(n)]
sd = [
    None if i < P - 1 else math.sqrt(sum((v - sma[i]) ** 2 for v in C[i - P + 1 : i + 1]) / P)
    for i in range(n)
]
ema = [None] * n
for i in range(P - 1, n):
    ema[i] = sum(C[:P]) / P if i == P - 1 else 2 / (P + 1) * C[i] + (1 - 2 / (P + 1)) * ema[i - 1]
w_full, w_half = wma(C, P), wma(C, P // 2)
raw = [None if a is None else 2 * b - a for a, b in zip(w_full, w_half)]
hma = wma(raw, int(math.sqrt(P)))

violations = 0


def compare(label, got, exp):
    """got/exp: lists of floats or None; compared where both exist"""
    global violations
    worst, at = 0.0, None
    for i, (g, e) in enumerate(zip(got, exp)):
        if g is None or e is None:
            continue
        if abs(g - e) > worst:
            worst, at = abs(g - e), i
    rel = worst / abs(exp[at]) if at is not None and exp[at] else 0
    print(
        f"{label:<22} worst error {worst:.3e} = {worst / UNIT:,.0f} rounding units"
        f"  (index {at}: library {got[at]!r}  reference {exp[at]:.10f}, {rel:.1%} off)"
    )
    if worst > 100 * UNIT:
        violations += 1
        print("   -> VIOLATION")


print(f"round_value={RV} on every indicator, period={P}, prices around 0.0005\n")

ind = HMA(candles=mk(), period=P, round_value=RV)
ind.calculate()
compare("HMA", ind.as_list(), hma)

ind = ATR(candles=mk(), period=P, round_value=RV)
ind.calculate()
compare("ATR", ind.as_list(), atr)

ind = BBANDS(candles=mk(), period=P, round_value=RV)
ind.calculate()
rows = ind.as_list()
compare("BBANDS.BBM", [r["BBM"] for r in rows], sma)
compare("BBANDS.BBU", [r["BBU"] for r in rows], [None if s is None else m + 2 * s for m, s in zip(sma, sd)])

ind = KC(candles=mk(), period=P, multiplier=2.0, round_value=RV)
ind.calculate()
rows = ind.as_list()
compare("KC.band", [r["band"] for r in rows], ema)
compare("KC.upper", [r["upper"] for r in rows], [None if a is None else e + 2 * a for e, a in zip(ema, atr)])

ind = Supertrend(candles=mk(), period=P, multiplier=2.0, round_value=RV)
ind.calculate()
rows = ind.as_list()
# only the first band (no ratchet / flip history needed): HL2 - mult*ATR at the first ATR index
first = [None] * n
first[P] = (H[P] + L[P]) / 2 - 2.0 * atr[P]
compare("Supertrend first band", [r["trend"] for r in rows], first)

ind = StandardDeviationThreshold(candles=mk(), period=P, multiplier=2.0, round_value=RV)
ind.calculate()
flags = ind.as_list()
wrong = []
for i in range(P, n):  # P, not P-1: see finding3
    move, thr = abs(C[i] - C[i - 1]), 2.0 * sd[i]
    if abs(move - thr) < 0.1 * thr:
        continue
    if flags[i] is not (move > thr):
        wrong.append(i)
print(
    f"{'STDEVTHRES':<22} wrong flags on {len(wrong)} of {n - P} candles "
    f"(library says True on {sum(1 for f in flags if f is True)}, definition on "
    f"{sum(1 for i in range(P, n) if abs(C[i] - C[i - 1]) > 2 * sd[i])})"
)
if wrong:
    violations += 1
    print("   -> VIOLATION, e.g. index", wrong[0], "move", abs(C[wrong[0]] - C[wrong[0] - 1]), "2*sigma", 2 * sd[wrong[0]])

print("\nviolations:", violations)
sys.exit(1 if violations else 0)
