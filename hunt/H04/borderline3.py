"""BORDERLINE (C05 "Donchian channel and Highest/Lowest (window extremes of high and low)").
HighestLowest(period=N) looks at N+1 candles (the current one and N before it) whereas
Donchian(period=N) - same quantity, same library - looks at N candles.  Whether this is a
violation depends on how "N periods back" in the HighestLowest docstring is read."""
import sys
from datetime import datetime, timedelta

from hexital import Candle
from hexital.indicators import Donchian, HighestLowest

highs = [10, 50, 11, 12, 13, 14]
t0 = datetime(2024, 1, 1)
cs = [Candle(h - 1, h, h - 2, h - 1, 1, timestamp=t0 + timedelta(minutes=i)) for i, h in enumerate(highs)]
hl = HighestLowest(candles=cs, period=3)
hl.calculate()
dc = Donchian(candles=cs, period=3)
dc.calculate()
i = 4
print("highs", highs, "index", i, "last 3 highs", highs[i - 2 : i + 1])
print("HighestLowest(period=3).high =", hl.as_list()[i]["high"], "  Donchian(period=3).DCU =", dc.as_list()[i]["DCU"])
sys.exit(1 if hl.as_list()[i]["high"] != max(highs[i - 2 : i + 1]) else 0)
