"""C05: "rolling population standard deviation, Bollinger Bands (SMA +/- 2 sigma) ... with the
first reading at the documented warm-up index"; StandardDeviationThreshold "true exactly
when the input moved by more than multiplier*sigma since the previous candle".

StandardDeviation only returns a value when `period + 1` inputs exist
(stdev.py: `if self.reading_period(self.period + 1, ...): in_calc_range = True` is the only
thing that lets a value out), although the window of `period` inputs is already full one
candle earlier and the running mean/variance the indicator keeps are already exact there.
So the first STDEV reading is at index `period`, not `period - 1`:
  * the library's own reference data (tests/data/source_of_truth/indicators/STDEV.json and
    BBANDS.json, generated with pandas-ta) have their first value at index 29 for STDEV_30 and
    at index 4 for BBANDS_5; the library produces index 30 and index 5;
  * BBANDS at index period-1 reports BBM=None although its middle band is the SMA, which has
    a reading on that candle (SMA, EMA, WMA, Donchian ... all start at period-1);
  * STDEVTHRES answers False on that candle even when the move exceeds multiplier*sigma.

Exits 1 when the first reading is not at index period-1 / the flag is wrong there.
"""
import math
import sys
from datetime import datetime, timedelta

from hexital import BBANDS, SMA, Candle
from hexital.indicators import StandardDeviation, StandardDeviationThreshold

closes = [10, 11, 10, 11, 10, 20, 19, 21, 20, 22, 21, 23]


def mk():
    t0 = datetime(2024, 1, 1)
    out, prev = [], closes[0]
    for i, c in enumerate(closes):
        out.append(Candle(prev, max(prev, c), min(prev, c), c, 10, timestamp=t0 + timedelta(minutes=i)))
        prev = c
    return out


def first_index(values):
    for i, v in enumerate(values):
        if isinstance(v, dict):
            if any(x is not None for x in v.values()):
                return i
        elif v is not None:
            return i
    return None


violations = 0
for period in (2, 5, 6):
    sd = StandardDeviation(candles=mk(), period=period)
    sd.calculate()
    bb = BBANDS(candles=mk(), period=period)
    bb.calculate()
    sma = SMA(candles=mk(), period=period)
    sma.calculate()
    w = closes[:period]
    m = sum(w) / period
    sigma = math.sqrt(sum((v - m) ** 2 for v in w) / period)
    f_sd, f_bb, f_sma = first_index(sd.as_list()), first_index(bb.as_list()), first_index(sma.as_list())
    print(f"period={period}: first SMA index {f_sma}, first STDEV index {f_sd}, first BBANDS index {f_bb}")
    print(f"   at index {period - 1} the window {w} is full: sigma = {sigma:.4f}, SMA = {sma.as_list()[period - 1]}")
    print(f"   library STDEV[{period - 1}] = {sd.as_list()[period - 1]}   BBANDS[{period - 1}] = {bb.as_list()[period - 1]}")
    if f_sd != period - 1 or f_bb != period - 1:
        violations += 1
        print("   -> VIOLATION: first reading one candle late")

# threshold flag on the candle that completes the first window
period, mult = 6, 2.0
th = StandardDeviationThreshold(candles=mk(), period=period, multiplier=mult)
th.calculate()
i = period - 1
w = closes[:period]
m = sum(w) / period
sigma = math.sqrt(sum((v - m) ** 2 for v in w) / period)
move = abs(closes[i] - closes[i - 1])
print(
    f"STDEVTHRES period={period} mult={mult} index {i}: move {move} vs {mult}*sigma = {mult * sigma:.4f}"
    f" -> definition {move > mult * sigma}, library {th.as_list()[i]}"
)
if th.as_list()[i] is not (move > mult * sigma):
    violations += 1
    print("   -> VIOLATION")

print("violations:", violations)
sys.exit(1 if violations else 0)
