"""C15 second clause / C04 "SMA readings equal the textbook window formula over the last
`period` inputs".

SMA never looks at its window after the seed; it needs the input `period` candles *before*
the current one, x[t-period] - one candle more than the `period`-candle window the
textbook formula (and WMA, VWMA, Donchian, ... in this library) needs:
    sma.py:  prev - (self.reading(input, index - self.period) - self.reading(input)) / period
With candles_lifespan keeping exactly `period` candles (every candle of the window the new
reading averages is still retained at the moment it is computed) `index - self.period` is
-1, which Python happily resolves to the NEWEST candle, so the update is
prev - (x[t] - x[t]) / period = prev: no exception, no None - the SMA silently freezes at
its seed value for ever.  WMA, VWMA, EMA, HMA, Donchian, ATR with the same lifespan equal
the untrimmed run exactly.

Exit 1 when the retained SMA readings differ from the same run without trimming.
"""
import random
import sys
from datetime import datetime, timedelta

from hexital import EMA, SMA, WMA, Candle
from hexital.indicators import VWMA, Donchian

PERIOD = 5
rng = random.Random(1)
t0 = datetime(2024, 1, 1)
rows, price = [], 100.0
for i in range(40):
    o = price
    c = o + rng.uniform(-1, 1.2)
    rows.append((o, max(o, c) + 0.1, min(o, c) - 0.1, c, rng.randint(1, 100), t0 + timedelta(minutes=i)))
    price = c

violations = 0
for cls in (WMA, VWMA, EMA, Donchian, SMA):
    # 1-minute candles, lifespan of PERIOD-1 minutes -> exactly PERIOD candles are retained
    trimmed = cls(period=PERIOD, candles_lifespan=timedelta(minutes=PERIOD - 1))
    full = cls(period=PERIOD)
    for o, h, l, c, v, ts in rows:
        trimmed.append(Candle(o, h, l, c, v, timestamp=ts))
        full.append(Candle(o, h, l, c, v, timestamp=ts))
    kept = len(trimmed.candles)
    a, b = trimmed.as_list(), full.as_list()[-kept:]
    same = a == b
    print(f"{cls.__name__:<9} retained candles: {kept}  equal to untrimmed run: {same}")
    if not same:
        closes = [r[3] for r in rows[-PERIOD:]]
        print("   trimmed  :", a)
        print("   untrimmed:", b)
        print("   textbook mean of the retained window:", round(sum(closes) / PERIOD, 4))
        violations += 1

print("violations:", violations)
sys.exit(1 if violations else 0)
