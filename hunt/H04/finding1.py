"""C04 (also C10 "averages lie within the range of their inputs"; C05 via BBANDS middle band)

SMA is not computed from its window.  After the seed it is updated as
    r[t] = round(r[t-1] - (x[t-period] - x[t]) / period, round_value)
i.e. every reading is built on the *rounded* previous reading.  The rounding error of
every step is carried forward for ever, so the distance to the textbook value
mean(x[t-period+1 .. t]) is not bounded by what one rounding can introduce:

 (a) whenever |x[t] - x[t-period]| / period is below half a unit of the configured rounding
     the update is rounded away completely and the SMA does not move at all, however long
     the trend lasts (5-decimal FX style prices that rise one point per candle, SMA(10),
     default round_value=4: the reading stays at the seed while the window walks away);
 (b) on ordinary random data the error performs a random walk and after a few thousand
     candles is tens of rounding units.

The program prints the observations and exits 1 if a reading is further from the textbook
window mean than 4 rounding units (0.5 unit is what one rounding can introduce), or lies
outside [min(window), max(window)] by more than one rounding unit.
"""
import math
import random
import sys
from datetime import datetime, timedelta

from hexital import BBANDS, SMA, Candle

T0 = datetime(2024, 1, 1)
violations = 0


def candles_from_closes(closes):
    out = []
    prev = closes[0]
    for i, c in enumerate(closes):
        o = prev
        out.append(Candle(o, max(o, c), min(o, c), c, 100, timestamp=T0 + timedelta(minutes=i)))
        prev = c
    return out


def check(label, closes, period, round_value, readings):
    global violations
    unit = 10.0**-round_value
    worst = (0.0, None)
    outside = None
    for i in range(period - 1, len(closes)):
        window = closes[i - period + 1 : i + 1]
        mean = math.fsum(window) / period
        err = abs(readings[i] - mean)
        if err > worst[0]:
            worst = (err, i)
        if outside is None and not (min(window) - unit <= readings[i] <= max(window) + unit):
            outside = (i, readings[i], min(window), max(window))
    i = worst[1]
    print(f"{label}: period={period} round_value={round_value} candles={len(closes)}")
    print(f"   largest |SMA - mean(window)| = {worst[0]:.6f} = {worst[0] / unit:.1f} rounding units (index {i})")
    print(f"   last reading {readings[-1]}  textbook {math.fsum(closes[-period:]) / period:.6f}")
    if outside:
        print(
            f"   index {outside[0]}: reading {outside[1]} is OUTSIDE its window [{outside[2]}, {outside[3]}]"
        )
    if worst[0] > 4 * unit or outside:
        violations += 1
        print("   -> VIOLATION")


# (a) steady slow trend, default rounding -------------------------------------------------
closes = [round(1.10000 + 0.00001 * t, 5) for t in range(3000)]
sma = SMA(candles=candles_from_closes(closes), period=10)
sma.calculate()
check("(a) batch   FX series +0.00001/candle", closes, 10, 4, sma.as_list())

sma = SMA(period=10)  # same thing fed one candle at a time
for c in candles_from_closes(closes):
    sma.append(c)
check("(a) append  FX series +0.00001/candle", closes, 10, 4, sma.as_list())

# same effect at a coarser rounding with ordinary prices
closes = [100 + 0.004 * t for t in range(1000)]
sma = SMA(candles=candles_from_closes(closes), period=2, round_value=2)
sma.calculate()
check("(a) price 100 +0.004/candle", closes, 2, 2, sma.as_list())

# (b) ordinary random walk, default settings ------------------------------------------------
rng = random.Random(1)
closes = [100.0]
for _ in range(20000):
    closes.append(max(1.0, closes[-1] + rng.uniform(-1, 1)))
for period in (2, 10, 50):
    sma = SMA(candles=candles_from_closes(closes), period=period)
    sma.calculate()
    check("(b) random walk", closes, period, 4, sma.as_list())

# (c) integer prices: the Bollinger middle band inherits the drift within a few dozen candles
rng = random.Random(34)
closes = [100]
for _ in range(400):
    closes.append(max(1, closes[-1] + rng.randint(-5, 5)))
bb = BBANDS(candles=candles_from_closes(closes), period=13)
bb.calculate()
mid = [r["BBM"] for r in bb.as_list()]
first = next(i for i, v in enumerate(mid) if v is not None)
worst = max(
    (abs(mid[i] - math.fsum(closes[i - 12 : i + 1]) / 13), i) for i in range(first, len(closes))
)
print(f"(c) BBANDS_13.BBM on integer prices: largest error {worst[0]:.6f} at index {worst[1]}")
if worst[0] > 4e-4:
    violations += 1
    print("   -> VIOLATION")

print("violations:", violations)
sys.exit(1 if violations else 0)
