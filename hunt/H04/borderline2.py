"""BORDERLINE (C04 "all input_value choices ... another indicator's reading").
Supertrend's own `long` / `short` fields are None by design whenever the trend points the
other way, i.e. they are readings with natural gaps.  Using one as input_value makes
SMA/EMA/WMA/RMA/HMA/BBANDS raise TypeError at the first flip and StandardDeviation return
numbers unrelated to the window (its running state is never reset)."""
import random
import sys
from datetime import datetime, timedelta

from hexital import EMA, HMA, RMA, SMA, WMA, Candle, Supertrend
from hexital.indicators import StandardDeviation

rng = random.Random(1)
t0 = datetime(2024, 1, 1)
cs, p = [], 100.0
for i in range(80):
    c = max(1.0, p + rng.uniform(-1, 1))
    cs.append(Candle(p, max(p, c) + rng.uniform(0, 0.5), min(p, c) - rng.uniform(0, 0.5), c, 10, timestamp=t0 + timedelta(minutes=i)))
    p = c
st = Supertrend(candles=cs, period=3, multiplier=1.0)
st.calculate()
print("direction:", [r["direction"] for r in st.as_list()][:30])
problems = 0
for cls in (SMA, EMA, WMA, RMA, HMA, StandardDeviation):
    try:
        ind = cls(candles=cs, period=3, input_value="Supertrend_3.long")
        ind.calculate()
        print(cls.__name__, ind.as_list()[:12], "(long values are ~", st.reading()["trend"], ")")
        if cls is StandardDeviation and max(v for v in ind.as_list() if v is not None) > 20:
            problems += 1
    except TypeError as exc:
        problems += 1
        print(cls.__name__, "raised", repr(exc))
sys.exit(1 if problems else 0)
