"""borderline4 - three small observations next to C16 / C17 / C14 (none claimed as a clean violation).

(a) C17 wording vs highestbar/lowestbar: highest()/lowest()/value_range() look at the current candle
    AND `length` candles before it (length+1 readings); highestbar()/lowestbar() look at `length`
    readings in total, so highestbar() never reports the bar that highest() reports when the extreme
    sits exactly `length` candles back.
(b) C16 "through the dict wrapper": the flat dict form {"analysis": "rising", "indicator": "close"}
    raises InvalidIndicator, because the movement argument is itself called "indicator" and
    Hexital._build_indicator looks at that key first.  {"analysis": ..., "args": {...}} works.
(c) C14: after remove_indicator() of a member that another member reads (input_value), the next
    append raises TypeError instead of yielding None readings.

exit code = number of observations that reproduce.
"""
import copy, sys
from datetime import datetime, timedelta
from hexital import Candle, Hexital, EMA, SMA
from hexital.analysis import movement

seen = 0
cs = [Candle(1, 1, 1, 1, 0, indicators={"x": v}) for v in [9, 1, 2, 3, 4]]
hi, bar = movement.highest(cs, "x", 4), movement.highestbar(cs, "x", 4)
print(f"(a) readings [9,1,2,3,4], length=4: highest -> {hi}, highestbar -> {bar} (the 9 is 4 bars back)")
if hi == 9 and bar != 4:
    seen += 1

T0 = datetime(2024, 1, 1)
mk = lambda n: [Candle(10 + i, 11 + i, 9 + i, 10 + i, 1, timestamp=T0 + timedelta(minutes=i + 1)) for i in range(n)]
try:
    Hexital("h", mk(5), [{"analysis": "rising", "indicator": "close", "length": 2}]).calculate()
    print("(b) flat dict form accepted")
except Exception as e:
    print("(b) flat dict form raised", type(e).__name__, "-", e)
    seen += 1
h = Hexital("h", mk(5), [{"analysis": "rising", "args": {"indicator": "close", "length": 2}}])
h.calculate()
name = list(h.indicators)[0]
print("    args form works:", name, h.reading_as_list(name))

h = Hexital("h", mk(8), [EMA(period=3), SMA(period=2, input_value="EMA_3", name_suffix="on_ema")])
h.calculate()
h.remove_indicator("EMA_3")
try:
    h.append(mk(9)[-1])
    print("(c) append after removing the input member: no exception")
except Exception as e:
    print("(c) append after removing the input member raised", type(e).__name__, "-", e)
    seen += 1
sys.exit(seen)
