"""borderline1 - C07 (borderline): on a collapsing timeframe the per-append work of the candle manager
(CandleManager.collapse_candles, which every Indicator.append / Hexital.append runs) re-walks the
WHOLE retained candle list, so executed lines grow linearly with history.  The indicator code proper
(hexital/indicators, core/indicator.py, utils, analysis) stays constant - which is why this is only
borderline for C07 as worded ("amount of indicator code executed per append").

exit 0 = total library work per append independent of history, 1 = grows.
"""
import os, sys, collections
from datetime import datetime, timedelta
from hexital import Candle, EMA

ROOT = os.path.join(os.path.dirname(os.path.abspath(__file__)), "hexital")
T0 = datetime(2024, 1, 1)


def candle(i):
    return Candle(100 + i % 7, 101 + i % 7, 99 + i % 7, 100 + (i * 3) % 7, 5, timestamp=T0 + timedelta(minutes=i + 1))


def work(history):
    ind = EMA(candles=[candle(i) for i in range(history)], period=5, timeframe="T5")
    ind.calculate()
    counts = collections.Counter()

    def tracer(frame, event, arg):
        fn = frame.f_code.co_filename
        if not fn.startswith(ROOT):
            return None
        rel = fn[len(ROOT) + 1 :]
        ind_side = rel.startswith(("indicators", "analysis", "core/indicator.py", "utils/candles.py", "utils/indexing.py"))
        key = "other" if ind_side else "manager"

        def local(frame, event, arg):
            if event == "line":
                counts[key] += 1
            return local

        return local

    sys.settrace(tracer)
    ind.append(candle(history))
    sys.settrace(None)
    return counts["other"], counts["manager"]


res = {n: work(n) for n in (500, 1000, 2000, 4000)}
for n, (ind, mgr) in res.items():
    print(f"history {n:5d} one-minute candles: indicator-side lines {ind:5d}   candle-manager-side lines {mgr:6d}")
ind_const = len({v[0] for v in res.values()}) == 1
mgr_const = res[4000][1] <= res[500][1] * 1.1
print("indicator code constant:", ind_const, "| candle manager constant:", mgr_const)
sys.exit(0 if (ind_const and mgr_const) else 1)
