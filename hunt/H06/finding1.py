"""finding1 - C08 (also C03 / C15 first clause): a Hexital with a candle lifespan that is given its
candles at construction trims the BASE candles first and only then builds the candle list of a
member with a coarser timeframe from what is left.  The oldest retained bucket of that member is
therefore built from a truncated set of base candles (wrong open / low / high / volume), and
readings that depend on it differ from the standalone twin with the same effective configuration
fed the same stream.

run:  cd /tmp/w6-H06 && /venv/bin/python finding1.py      (exit 0 = property held, 1 = violated)
"""
import sys
from datetime import datetime, timedelta

from hexital import Candle, Hexital
from hexital.indicators import Donchian

T0 = datetime(2024, 1, 1, 0, 0, 0)
LIFE = timedelta(hours=1)


def stream():
    # 150 one-minute candles 00:01 .. 02:30, strictly rising prices, volume 1 each
    return [
        Candle(open=10 + i, high=11 + i, low=9 + i, close=10 + i, volume=1, timestamp=T0 + timedelta(minutes=i + 1))
        for i in range(150)
    ]


def rows(ind):
    return [
        (c.timestamp.isoformat(), c.open, c.high, c.low, c.close, c.volume, c.indicators.get(ind.name))
        for c in ind.candles
    ]


# Hexital: candles at construction, Hexital-level lifespan, one member on H1
hexital = Hexital("h", stream(), [Donchian(period=2, timeframe="H1")], candles_lifespan=LIFE)
hexital.calculate()
member = rows(hexital.indicator("DONCHIAN_2_H1"))

# standalone twin: same effective configuration, same stream
twin_ind = Donchian(candles=stream(), period=2, timeframe="H1", candles_lifespan=LIFE)
twin_ind.calculate()
twin = rows(twin_ind)

# the same Hexital without a lifespan (C15, 2nd clause: Donchian(2) only needs the two retained buckets)
untrimmed = Hexital("u", stream(), [Donchian(period=2, timeframe="H1")])
untrimmed.calculate()
untrimmed_last = rows(untrimmed.indicator("DONCHIAN_2_H1"))[-1]

# independent reference for the bucket (01:00, 02:00]: candles 01:01 .. 02:00 -> i = 60 .. 119
ref = dict(open=10 + 60, high=11 + 119, low=9 + 60, close=10 + 119, volume=60)

print("Hexital member candles (timestamp, o, h, l, c, v, reading):")
for r in member:
    print("   ", r)
print("standalone twin candles:")
for r in twin:
    print("   ", r)
print("reference bucket 02:00 :", ref)
print("same Hexital without lifespan, newest candle:", untrimmed_last)

if member == twin:
    print("OK: member equals standalone twin")
    sys.exit(0)
print("VIOLATION (C08): Hexital member differs from its standalone twin")
sys.exit(1)
