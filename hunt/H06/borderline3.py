"""borderline3 - C16 last clause / C01 / C08 (borderline: arguably a registration-order mistake by the user):
an Amorph-wrapped movement function that reads another member of the same Hexital gives a different
column live and in batch when it is registered BEFORE the member it reads.  Registered after it, the
column is identical live and in batch (that case held in every randomised run).

exit 0 = live == batch, 1 = differs.
"""
import copy, sys
from datetime import datetime, timedelta
from hexital import Candle, Hexital, EMA, Amorph
from hexital.analysis import movement

T0 = datetime(2024, 1, 1)
cs = [Candle(10 + i, 11 + i, 9 + i, 10 + (i * 7) % 5, 1, timestamp=T0 + timedelta(minutes=i + 1)) for i in range(10)]


def members():
    return [Amorph(analysis=movement.highest, args={"indicator": "EMA_3", "length": 2}), EMA(period=3)]


batch = Hexital("b", copy.deepcopy(cs), members())
batch.calculate()
live = Hexital("l", [], members())
for c in copy.deepcopy(cs):
    live.append(c)
b, l = batch.reading_as_list("highest_2"), live.reading_as_list("highest_2")
print("batch:", b)
print("live :", l)
sys.exit(0 if b == l else 1)
