"""borderline2 - C01 / C12 (borderline: candlestick_type is not listed in their "for:" lines):
with timeframe_fill=True AND candlestick_type="HA" the candles inserted by gap filling depend on the
append schedule.  In a batch run gaps are filled on the raw collapsed candles and the result is
converted; in a live run the previous candle is already Heikin-Ashi converted when the gap is
filled, so the fill candle is seeded from the HA close instead of the raw close.

exit 0 = live == batch, 1 = differs.
"""
import copy, sys
from datetime import datetime, timedelta
from hexital import Candle
from hexital.indicators import TR

T0 = datetime(2024, 1, 1)
stream = [
    Candle(100, 110, 90, 104, 10, timestamp=T0 + timedelta(minutes=1)),
    Candle(104, 108, 100, 102, 10, timestamp=T0 + timedelta(minutes=2)),
    Candle(102, 103, 101, 103, 10, timestamp=T0 + timedelta(minutes=5)),  # gap: 00:03, 00:04 missing
]
cfg = dict(timeframe="T1", timeframe_fill=True, candlestick_type="HA")

batch = TR(candles=copy.deepcopy(stream), **cfg)
batch.calculate()
live = TR(candles=[], **cfg)
for c in copy.deepcopy(stream):
    live.append(c)

rows = lambda ind: [(c.timestamp.strftime("%H:%M"), c.open, c.high, c.low, c.close, c.volume, c.indicators.get(ind.name)) for c in ind.candles]
print("batch:")
for r in rows(batch):
    print("   ", r)
print("live (one candle per append):")
for r in rows(live):
    print("   ", r)
same = rows(batch) == rows(live)
print("live == batch:", same)
sys.exit(0 if same else 1)
