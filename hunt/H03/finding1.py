"""C12 (also C11 / C01): gap-fill candles depend on the append schedule when the
Heikin-Ashi candlestick type is selected.

A candle that arrives after a gap makes the library insert fill candles that copy
`close` of the previous collapsed candle.  When the stream is appended
incrementally, that previous candle has already been converted to Heikin-Ashi, so
the fill candle is built from the *HA* close instead of the raw close; in a batch
run the fill happens before any conversion.  Result: different fill candles (and
different HA candles after them) for the same stream, and in the incremental run
the inserted candle's recoverable raw values are not "open=high=low=close=previous
candle's close".
"""
import sys
from datetime import datetime
from hexital import SMA, Candle


def stream():
    return [
        Candle(open=100, high=120, low=90, close=110, volume=5, timestamp=datetime(2023, 6, 1, 9, 1)),
        # nothing at 09:02, 09:03 -> two fill candles expected
        Candle(open=111, high=113, low=109, close=112, volume=7, timestamp=datetime(2023, 6, 1, 9, 4)),
    ]


def snap(ind):
    return [(c.timestamp.strftime("%H:%M"), c.open, c.high, c.low, c.close, c.volume) for c in ind.candles]


def raw(ind):
    """raw (pre-conversion) values the library itself kept for each candle"""
    out = []
    for c in ind.candles:
        v = c.clean_values
        out.append((c.timestamp.strftime("%H:%M"), v["open"], v["high"], v["low"], v["close"], v["volume"]))
    return out


kw = dict(period=2, timeframe="T1", timeframe_fill=True, candlestick_type="HA")

batch = SMA(candles=stream(), **kw)
batch.calculate()

live = SMA(**kw)
for candle in stream():
    live.append(candle)

# independent expectation: fill on raw buckets, then HA recurrence
rows = [("09:01", 100, 120, 90, 110, 5), ("09:02", 110, 110, 110, 110, 0),
        ("09:03", 110, 110, 110, 110, 0), ("09:04", 111, 113, 109, 112, 7)]
exp = []
for i, (ts, o, h, l, c, v) in enumerate(rows):
    hc = (o + h + l + c) / 4
    ho = (o + c) / 2 if i == 0 else (exp[-1][1] + exp[-1][4]) / 2
    exp.append((ts, ho, max(h, ho, hc), min(l, ho, hc), hc, v))

print("expected (fill raw, then HA):")
for r in exp: print("   ", r)
print("batch:")
for r in snap(batch): print("   ", r)
print("incremental (one candle per append):")
for r in snap(live): print("   ", r)
print("raw values kept for the incremental candles:")
for r in raw(live): print("   ", r)
print("SMA batch:", batch.as_list())
print("SMA live :", live.as_list())

ok = True
if snap(batch) != exp:
    print("VIOLATION: batch differs from the definition"); ok = False
if snap(live) != snap(batch):
    print("VIOLATION (C12/C01/C11): incremental candles differ from batch candles"); ok = False
if raw(live)[1][1:] != (110, 110, 110, 110, 0):
    print("VIOLATION (C12): inserted candle is not flat at the previous candle's (raw) close 110:", raw(live)[1]); ok = False
if live.as_list() != batch.as_list():
    print("VIOLATION (C01): readings differ"); ok = False
sys.exit(0 if ok else 1)
