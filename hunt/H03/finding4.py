"""C15 / C11 (schedule dependence, C01 flavour): Heikin-Ashi x collapsing timeframe x
candles_lifespan.  When trimming leaves only the still-forming bucket in the list
(e.g. a gap longer than the lifespan), the next raw candle that merges into that
bucket makes the library re-convert it as if it were the very first candle of the
stream: HA-open becomes (o+c)/2 instead of (previous HA-open + previous HA-close)/2,
although the same candle had been converted with the correct recurrence one append
earlier.  The retained candle (and every reading computed on it) therefore differs
 * from the same run without trimming (C15, second clause), and
 * from the same trimmed run in which the two raw candles arrive in one append.
"""
import sys
from datetime import datetime, timedelta
from hexital import Candle, HighLowAverage

LIFE = timedelta(minutes=30)


def stream():
    return [
        Candle(open=200, high=205, low=195, close=204, volume=10, timestamp=datetime(2023, 6, 1, 9, 1)),
        Candle(open=202, high=206, low=198, close=203, volume=10, timestamp=datetime(2023, 6, 1, 9, 6)),
        # gap longer than the lifespan
        Candle(open=100, high=102, low=99, close=101, volume=10, timestamp=datetime(2023, 6, 1, 11, 1)),
        Candle(open=101, high=103, low=100, close=102, volume=10, timestamp=datetime(2023, 6, 1, 11, 2)),
    ]


def run(lifespan, schedule):
    ind = HighLowAverage(timeframe="T5", candlestick_type="HA", candles_lifespan=lifespan)
    s = stream()
    i = 0
    for k in schedule:
        ind.append(s[i:i + k])
        i += k
    return ind


def show(ind):
    return [(c.timestamp.strftime("%H:%M"), c.open, c.high, c.low, c.close, c.volume, c.indicators) for c in ind.candles]


full = run(None, [1, 1, 1, 1])          # no trimming
trim_single = run(LIFE, [1, 1, 1, 1])   # trimming, one candle per append
trim_chunk = run(LIFE, [1, 1, 2])       # trimming, last two candles in one append

# independent HA of the T5 buckets: 09:05 (c0), 09:10 (c1), 11:05 (c2+c3)
b = [(200, 205, 195, 204), (202, 206, 198, 203), (100, 103, 99, 102)]
ha = []
for i, (o, h, l, c) in enumerate(b):
    hc = (o + h + l + c) / 4
    ho = (o + c) / 2 if i == 0 else (ha[-1][0] + ha[-1][3]) / 2
    ha.append((ho, max(h, ho, hc), min(l, ho, hc), hc))
print("definition, bucket 11:05      :", ha[-1], "HLA =", (ha[-1][1] + ha[-1][2]) / 2)
print("no lifespan, last candle      :", show(full)[-1])
print("lifespan 30m, chunk [c2,c3]   :", show(trim_chunk))
print("lifespan 30m, c2 then c3      :", show(trim_single))

ok = True
if [c.timestamp for c in trim_single.candles] != [datetime(2023, 6, 1, 11, 5)]:
    print("unexpected retained window"); ok = False
if show(full)[-1][1:5] != ha[-1]:
    print("untrimmed run differs from the HA definition"); ok = False
if show(trim_single)[-1] != show(full)[-1]:
    print("VIOLATION (C15/C11): retained candle / its reading differs from the run without trimming")
    ok = False
if show(trim_single) != show(trim_chunk):
    print("VIOLATION (schedule dependence): same stream, same lifespan, different chunking -> different candle")
    ok = False
sys.exit(0 if ok else 1)
