"""C08 / C15 / C03: in a Hexital with candles_lifespan, a member with a collapsing
timeframe that is created while base candles already exist (candles passed to the
constructor, or add_indicator() after some appends) is collapsed from the base list
AFTER that list was trimmed to the lifespan.  The oldest retained bucket is then
built from only part of its candles (wrong open/high/low/volume) and buckets that
are still inside the lifespan window are missing - unlike a standalone indicator
with the same timeframe and lifespan, and unlike the same Hexital fed by append().
"""
import sys
from datetime import datetime, timedelta
from hexital import SMA, Candle, Hexital

LIFE = timedelta(hours=2)


def stream():
    t0 = datetime(2023, 6, 1, 9, 0)
    # one candle every 10 minutes, 09:10 ... 12:30
    return [Candle(open=100 + i, high=102 + i, low=99 + i, close=101 + i, volume=10,
                   timestamp=t0 + timedelta(minutes=10 * (i + 1))) for i in range(21)]


def snap(candles):
    return [(c.timestamp.strftime("%H:%M"), c.open, c.high, c.low, c.close, c.volume) for c in candles]


twin = SMA(period=2, timeframe="H1", candles_lifespan=LIFE, candles=stream())
twin.calculate()

hx_app = Hexital("appended", [], [SMA(period=2, timeframe="H1")], candles_lifespan=LIFE)
hx_app.append(stream())

hx_con = Hexital("constructed", stream(), [SMA(period=2, timeframe="H1")], candles_lifespan=LIFE)
hx_con.calculate()

hx_add = Hexital("added later", [], [SMA(period=3)], candles_lifespan=LIFE)
hx_add.append(stream())
hx_add.add_indicator(SMA(period=2, timeframe="H1"))
hx_add.calculate()

print("standalone SMA(H1, lifespan 2h):", snap(twin.candles), twin.as_list())
for hx in (hx_app, hx_con, hx_add):
    print(f"Hexital {hx.name:12s}:", snap(hx.candles("H1")), hx.reading_as_list("SMA_2_H1"))

ok = True
# independent check of what must be retained: H1 buckets with label >= newest label (13:00) - 2h = 11:00
expected = [("11:00", 106, 113, 105, 112, 60), ("12:00", 112, 119, 111, 118, 60), ("13:00", 118, 122, 117, 121, 30)]
if snap(twin.candles) != expected:
    print("standalone differs from the definition"); ok = False
if snap(hx_app.candles("H1")) != expected:
    print("appended Hexital differs from the definition"); ok = False
for hx in (hx_con, hx_add):
    if snap(hx.candles("H1")) != expected:
        print(f"VIOLATION (C08/C15/C03): Hexital '{hx.name}': member H1 candles differ from the standalone twin")
        ok = False
    if hx.reading_as_list("SMA_2_H1") != twin.as_list():
        print(f"VIOLATION (C08): Hexital '{hx.name}': member readings differ from the standalone twin")
        ok = False
sys.exit(0 if ok else 1)
