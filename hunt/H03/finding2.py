"""C08 / C03 (and C09): a Hexital that has its own timeframe AND is given candles at
construction builds the candle lists of members with a different timeframe from
its already-collapsed base candles instead of from the stream.

 * member timeframe finer than / not a multiple of the Hexital timeframe: the
   member's "collapsed candles" are the Hexital-timeframe buckets relabelled
   (OHLCV of the wrong buckets, wrong count, volume in the wrong bucket), unlike a
   standalone indicator fed the same stream, and unlike the same Hexital fed the
   same stream through append();
 * the next append() then raises InvalidCandleOrder, because the member list holds
   a label that lies after the incoming raw candle.
"""
import sys
from datetime import datetime, timedelta
from hexital import SMA, Candle, Hexital


def stream(n):
    t0 = datetime(2023, 6, 1, 9, 0)
    return [Candle(open=100 + i, high=101 + i, low=99 + i, close=100.5 + i, volume=10 + i,
                   timestamp=t0 + timedelta(minutes=i + 1)) for i in range(n)]   # 09:01 ... one per minute


def snap(candles):
    return [(c.timestamp.strftime("%H:%M"), c.open, c.high, c.low, c.close, c.volume) for c in candles]


ok = True
N = 7

# standalone twin (right-closed T2 buckets of the 1-minute stream)
twin = SMA(period=2, timeframe="T2", candles=stream(N))
twin.calculate()

# same Hexital configuration, stream supplied through append
hx_app = Hexital("appended", [], [SMA(period=2, timeframe="T2")], timeframe="T5")
hx_app.append(stream(N))

# same Hexital configuration, stream supplied at construction
hx_con = Hexital("constructed", stream(N), [SMA(period=2, timeframe="T2")], timeframe="T5")
hx_con.calculate()

print("standalone SMA(T2) candles      :", snap(twin.candles))
print("Hexital(T5) member T2, appended :", snap(hx_app.candles("T2")))
print("Hexital(T5) member T2, at ctor  :", snap(hx_con.candles("T2")))
print("readings twin / appended / ctor :", twin.as_list(), hx_app.reading_as_list("SMA_2_T2"), hx_con.reading_as_list("SMA_2_T2"))

if snap(hx_app.candles("T2")) != snap(twin.candles):
    print("VIOLATION: appended Hexital member differs from standalone twin"); ok = False
if snap(hx_con.candles("T2")) != snap(twin.candles):
    print("VIOLATION (C08/C03): member T2 candles of the constructed Hexital are not the T2 buckets of the stream"); ok = False
if hx_con.reading_as_list("SMA_2_T2") != twin.as_list():
    print("VIOLATION (C08): member readings differ from standalone twin"); ok = False

# and the constructed Hexital cannot take the next candle of the stream
nxt = Candle(open=200, high=201, low=199, close=200, volume=1, timestamp=datetime(2023, 6, 1, 9, 8))
try:
    hx_con.append(nxt)
    print("append of the 09:08 candle succeeded")
except Exception as exc:  # noqa
    print("VIOLATION (C09/C08): append of a well-ordered candle raised", type(exc).__name__)
    ok = False

sys.exit(0 if ok else 1)
