"""BORDERLINE (C13): a top-level indicator whose user-chosen name equals the internal helper
name of another indicator ("<name>_data", "<name>_k", "<name>_d", "<name>_TR", ...) corrupts
that other indicator, and only in one registration order.

RSI(period=3) keeps its Wilder sums in a helper series called "RSI_3_data".
RSI(period=3, input_value="high", name_suffix="data") is a distinct top-level indicator
called "RSI_3_data".  Neither takes the other as input.

Run:  cd /tmp/w6-H07 && /venv/bin/python borderline1.py    (exit 1 = readings of RSI_3 changed)
"""
import sys
from datetime import datetime, timedelta

from hexital import Candle, Hexital
from hexital.indicators import RSI

closes = [10, 11, 10.5, 12, 11.5, 13, 12.5, 14, 13, 15, 14.5, 16]


def mk():
    t0 = datetime(2024, 1, 1, 9, 0)
    return [Candle(c, c + 1, c - 1, c, 100, timestamp=t0 + timedelta(minutes=i)) for i, c in enumerate(closes)]


def run(indicators):
    hx = Hexital("x", [], indicators)
    for candle in mk():
        hx.append(candle)
    return hx.indicator("RSI_3").as_list()


alone = run([RSI(period=3)])
after = run([RSI(period=3), RSI(period=3, input_value="high", name_suffix="data")])
before = run([RSI(period=3, input_value="high", name_suffix="data"), RSI(period=3)])
print("RSI_3 alone                         :", alone)
print("RSI_3 registered before RSI_3_data  :", after)
print("RSI_3 registered after  RSI_3_data  :", before)
sys.exit(0 if alone == after == before else 1)
