"""C15 (second clause): SMA with a candles_lifespan that retains exactly `period` candles.

The whole averaging window (the `period` newest candles, i.e. SMA's look-back) is still
retained when each new reading is computed, yet the readings differ from the untrimmed run:
SMA updates with   prev - (x[index - period] - x[index]) / period   and, with only `period`
candles left, index - period == -1 silently wraps round to the NEWEST candle
(hexital/indicators/sma.py line 35), so the reading freezes at its first value.

Run:  cd /tmp/w6-H07 && /venv/bin/python finding4.py      (exit 1 = property violated)
"""
import sys
from datetime import datetime, timedelta

from hexital import Candle
from hexital.indicators import SMA

PERIOD = 3
closes = [10.0, 11.0, 12.0, 20.0, 30.0, 40.0, 50.0, 60.0]


def mk():
    t0 = datetime(2024, 1, 1, 9, 0)
    return [Candle(c, c + 1, c - 1, c, 100, timestamp=t0 + timedelta(minutes=i)) for i, c in enumerate(closes)]


plain = SMA(period=PERIOD)
trimmed = SMA(period=PERIOD, candles_lifespan=timedelta(minutes=PERIOD - 1))  # keeps exactly 3 one-minute candles

bad = 0
for candle_a, candle_b in zip(mk(), mk()):
    plain.append(candle_a)
    trimmed.append(candle_b)
    kept = [c.close for c in trimmed.candles]
    want = {c.timestamp: c.indicators["SMA_3"] for c in plain.candles}
    got = [(c.timestamp.strftime("%H:%M"), c.indicators["SMA_3"], want[c.timestamp]) for c in trimmed.candles]
    textbook = round(sum(kept) / PERIOD, 4) if len(kept) == PERIOD else None
    print(f"retained closes {kept}  textbook SMA of retained window {textbook}  (time, trimmed run, untrimmed run): {got}")
    if any(g != w for _, g, w in got):
        bad = 1
if bad:
    print("VIOLATION (C15): readings on retained candles differ from the run without trimming "
          "although the full 3-candle window was retained at every append")
sys.exit(bad)
