"""C08: with a candles_lifespan, a Hexital trims its base candles BEFORE it builds the
candle manager of a member that has its own (coarser) timeframe, so the oldest retained
bucket of that member is built from only the part of the bucket that survived the base
trim.  A standalone indicator with the same effective configuration collapses first and
trims afterwards (and so does the same Hexital when the stream is appended).

Run:  cd /tmp/w6-H07 && /venv/bin/python finding2.py      (exit 1 = property violated)
"""
import sys
from datetime import datetime, timedelta

from hexital import Candle, Hexital
from hexital.indicators import SMA

LIFE = timedelta(minutes=20)


def stream(n):
    out, t = [], datetime(2024, 1, 1, 9, 0)
    for i in range(1, n + 1):
        p = 100.0 + i
        out.append(dict(open=p, high=p + 1, low=p - 1, close=p + 0.5, volume=10,
                        timestamp=t + timedelta(minutes=i)))
    return out


def mk(rows):
    return [Candle(r["open"], r["high"], r["low"], r["close"], r["volume"], timestamp=r["timestamp"])
            for r in rows]


def view(indicator):
    return [(c.timestamp.strftime("%H:%M"), c.open, c.high, c.low, c.close, c.volume,
             c.indicators.get(indicator.name)) for c in indicator.candles]


rows = stream(55)            # 09:01 .. 09:55, one candle per minute

twin = SMA(candles=mk(rows), period=2, timeframe="T10", candles_lifespan=LIFE)
twin.calculate()

hx_ctor = Hexital("ctor", mk(rows), [SMA(period=2, timeframe="T10")], candles_lifespan=LIFE)
hx_ctor.calculate()

hx_app = Hexital("app", [], [SMA(period=2, timeframe="T10")], candles_lifespan=LIFE)
for c in mk(rows):
    hx_app.append(c)

twin_app = SMA(period=2, timeframe="T10", candles_lifespan=LIFE)      # twin fed by the same appends
for c in mk(rows):
    twin_app.append(c)

t, a = view(twin), view(hx_ctor.indicator("SMA_2_T10"))
ta, b = view(twin_app), view(hx_app.indicator("SMA_2_T10"))
print("standalone SMA_2_T10, lifespan 20min, constructed :", t)
print("Hexital(lifespan 20min), constructed              :", a)
print("standalone, appended one by one                   :", ta)
print("Hexital(lifespan 20min), appended one by one      :", b)

bad = 0
if a != t:
    print("VIOLATION: member built at construction differs from the standalone twin built the same way "
          "(oldest retained bucket holds only the candles that survived the base-timeframe trim)")
    bad = 1
if b != ta:
    print("VIOLATION: appended member differs from appended twin")
    bad = 1
else:
    print("(held: appended member == appended twin)")
if [x[:6] for x in a] != [x[:6] for x in b]:
    print("VIOLATION: same stream at construction vs via append gives different member candles (OHLCV)")
    bad = 1

# same root cause through add_indicator() on a running Hexital
hx_late = Hexital("late", [], [], candles_lifespan=LIFE)
for c in mk(rows):
    hx_late.append(c)
hx_late.add_indicator(SMA(period=2, timeframe="T10"))
hx_late.calculate()
c = view(hx_late.indicator("SMA_2_T10"))
print("Hexital, member added after appends  :", c)
if c != t:
    print("VIOLATION: member added with add_indicator differs from the standalone twin")
    bad = 1
sys.exit(bad)
