"""BORDERLINE (C08, configuration-dict form): a movement wrapper whose keyword arguments are
given flat in the dict - exactly as they are given to the Amorph object - cannot be registered,
because the movement functions' own parameter is called `indicator` and Hexital._build_indicator
(hexital/core/hexital.py line 115) takes any "indicator" key as the indicator class name.
Only the nested form {"analysis": ..., "args": {...}} (which is what .settings emits) works.

Run:  cd /tmp/w6-H07 && /venv/bin/python borderline2.py    (exit 1 = dict form rejected)
"""
import sys
from datetime import datetime, timedelta

from hexital import Candle, Hexital
from hexital.analysis import movement
from hexital.indicators import Amorph

t0 = datetime(2024, 1, 1, 9, 0)
candles = [Candle(c, c + 1, c - 1, c + 0.5, 100, timestamp=t0 + timedelta(minutes=i))
           for i, c in enumerate([10, 11, 12, 11, 10, 11, 12, 13])]

obj = Amorph(analysis=movement.rising, candles=list(candles), indicator="close", length=2)   # object form
obj.calculate()
print("object form            :", obj.name, obj.as_list())
nested = Hexital("n", list(candles), [{"analysis": "rising", "args": {"indicator": "close", "length": 2}}])
nested.calculate()
print("dict form, nested args :", nested.reading_as_list("rising_2"))
try:
    flat = Hexital("f", list(candles), [{"analysis": "rising", "indicator": "close", "length": 2}])
    flat.calculate()
    print("dict form, flat kwargs :", flat.reading_as_list("rising_2"))
    sys.exit(0 if flat.reading_as_list("rising_2") == obj.as_list() else 1)
except Exception as exc:  # noqa
    print("dict form, flat kwargs : raised", type(exc).__name__, "-", exc)
    sys.exit(1)
