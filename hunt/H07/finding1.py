"""C08: a Hexital that has its own timeframe seeds the candle managers of members
with a *different* timeframe from its already-collapsed base candles.

The member therefore (a) holds different collapsed candles/readings than a standalone
indicator with the same effective configuration fed the same stream, (b) gives a
different result when the same stream is supplied at construction than when it is
appended, and (c) with a finer member timeframe the next append raises InvalidCandleOrder.

Run:  cd /tmp/w6-H07 && /venv/bin/python finding1.py      (exit 1 = property violated)
"""
import sys
from datetime import datetime, timedelta

from hexital import Candle, Hexital, TimeFrame
from hexital.indicators import SMA


def stream(n):
    """n well-formed 1-minute candles 09:01, 09:02, ... (strictly increasing timestamps)"""
    out, t = [], datetime(2024, 1, 1, 9, 0)
    for i in range(1, n + 1):
        p = 100.0 + i
        out.append(dict(open=p, high=p + 1, low=p - 1, close=p + 0.5, volume=10 + i,
                        timestamp=t + timedelta(minutes=i)))
    return out


def mk(rows):
    return [Candle(r["open"], r["high"], r["low"], r["close"], r["volume"], timestamp=r["timestamp"])
            for r in rows]


def view(indicator):
    return [(c.timestamp.strftime("%H:%M"), c.open, c.high, c.low, c.close, c.volume,
             c.indicators.get(indicator.name)) for c in indicator.candles]


bad = 0
rows = stream(40)

# ---- (a)+(b): Hexital on 10-minute candles, one member on 15-minute candles --------------
twin = SMA(candles=mk(rows), period=2, timeframe=TimeFrame.MINUTE15)          # standalone twin
twin.calculate()

hx_ctor = Hexital("ctor", mk(rows), [SMA(period=2, timeframe=TimeFrame.MINUTE15)],
                  timeframe=TimeFrame.MINUTE10)                                # stream at construction
hx_ctor.calculate()

hx_app = Hexital("app", [], [SMA(period=2, timeframe=TimeFrame.MINUTE15)],
                 timeframe=TimeFrame.MINUTE10)                                 # same stream appended
for c in mk(rows):
    hx_app.append(c)

t, a, b = view(twin), view(hx_ctor.indicator("SMA_2_T15")), view(hx_app.indicator("SMA_2_T15"))
print("standalone SMA_2_T15     :", t)
print("Hexital(T10), constructed:", a)
print("Hexital(T10), appended   :", b)
if a != t:
    print("VIOLATION: member of Hexital(timeframe=T10) built at construction differs from its standalone twin")
    bad = 1
if a != b:
    print("VIOLATION: same stream at construction vs via append gives different member candles/readings")
    bad = 1
print("total volume: stream", sum(r["volume"] for r in rows), " twin", sum(x[5] for x in t),
      " hexital member", sum(x[5] for x in a))

# ---- (c): Hexital on 5-minute candles, member on 1-minute candles: next append raises -----
hx = Hexital("fine", mk(rows[:12]), [SMA(period=2, timeframe="T1")], timeframe="T5")
hx.calculate()
print("\nmember T1 candles inside Hexital(T5) after construction:",
      [c.timestamp.strftime("%H:%M") for c in hx.indicator("SMA_2_T1").candles],
      "(standalone T1 twin has 12 candles 09:01..09:12)")
if len(hx.indicator("SMA_2_T1").candles) != 12:
    bad = 1
try:
    hx.append(mk(rows[12:13]))
    print("append ok")
except Exception as exc:  # noqa
    print("VIOLATION: append of the next well-formed candle raised", type(exc).__name__)
    bad = 1

sys.exit(bad)
