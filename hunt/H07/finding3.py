"""C01 / C12 (also C11): gap filling combined with the Heikin-Ashi candlestick type is
schedule dependent.  When a gap is discovered by a later append, the inserted fill candle is
flat at the previous candle's *already converted* (Heikin-Ashi) close instead of its raw close,
so the candles and every reading after the gap differ from the batch result.

Run:  cd /tmp/w6-H07 && /venv/bin/python finding3.py      (exit 1 = property violated)
"""
import sys
from datetime import datetime

from hexital import Candle
from hexital.indicators import SMA


def rows():
    d = datetime(2024, 1, 1)
    return [
        # open, high, low, close, volume, timestamp  (1-minute candles, then a 3-minute hole)
        (100.0, 104.0, 99.0, 103.0, 10, d.replace(hour=9, minute=1)),
        (103.0, 108.0, 102.0, 107.0, 10, d.replace(hour=9, minute=2)),
        (107.0, 109.0, 105.0, 106.0, 10, d.replace(hour=9, minute=5)),
        (106.0, 107.0, 104.0, 105.0, 10, d.replace(hour=9, minute=6)),
    ]


def mk():
    return [Candle(o, h, l, c, v, timestamp=t) for o, h, l, c, v, t in rows()]


def view(ind):
    return [(c.timestamp.strftime("%H:%M"), c.open, c.high, c.low, c.close, c.volume,
             c.clean_values.get("close"), c.indicators.get(ind.name)) for c in ind.candles]


kw = dict(period=2, timeframe="T1", timeframe_fill=True, candlestick_type="HA")

batch = SMA(candles=mk(), **kw)
batch.calculate()

live = SMA(**kw)
for candle in mk():
    live.append(candle)

a, b = view(batch), view(live)
print("columns: time, HA-open, HA-high, HA-low, HA-close, volume, raw close kept on the candle, SMA_2_T1")
print("batch      :")
for x in a:
    print("   ", x)
print("one by one :")
for x in b:
    print("   ", x)

bad = 0
if a != b:
    print("VIOLATION (C01/C12): candles/readings depend on the append schedule")
    bad = 1
# C12 in its own terms: the raw value of an inserted candle must be the previous candle's raw close
prev_raw_close = rows()[1][3]
for x in b:
    if x[0] in ("09:03",) and x[6] != prev_raw_close:
        print(f"VIOLATION (C12): inserted candle 09:03 is flat at {x[6]}, previous candle's close is {prev_raw_close}")
        bad = 1
sys.exit(bad)
