"""C14 - by-name maintenance on a member that reads another member never converges.

Hexital members: SMA_3 and EMA_3 computed on SMA_3 (input_value="SMA_3"), registered in
dependency order, so a plain calculate() gives every candle both readings.

    h.purge("SMA_3")        # drop the input series
    h.recalculate("EMA_3")  # by-name recalculation of the dependent member
    h.calculate()           # must restore the batch state (C14) - it does not

recalculate("EMA_3") runs while SMA_3 is absent and stores None on every candle.
Indicator._find_calc_index() treats a stored None as "done", so every later calculate()
skips those candles: SMA_3 is restored, EMA_3 stays None on the whole history and -
because EMA is recursive - stays different from the batch readings on all future candles.
The same happens with   h.purge(); h.calculate("EMA_3"); h.calculate()   and with a
freshly built Hexital on which calculate("EMA_3") is the first call.
"""
import sys
from datetime import datetime, timedelta

from hexital import EMA, SMA, Candle, Hexital


def candles(n):
    out, t, p = [], datetime(2023, 6, 1, 9, 0), 100.0
    for i in range(n):
        o = p
        c = round(p + ((i * 7) % 11 - 5) * 0.37, 2)
        out.append(Candle(o, max(o, c) + 0.3, min(o, c) - 0.3, c, 100 + i,
                          timestamp=t + timedelta(minutes=i)))
        p = c
    return out


def members():
    return [SMA(period=3), EMA(period=3, input_value="SMA_3")]


stream = candles(25)

h = Hexital("live", stream[:20], members())
h.calculate()
before = h.reading_as_list("EMA_3")

h.purge("SMA_3")
h.recalculate("EMA_3")
h.calculate()
h.calculate()
after = h.reading_as_list("EMA_3")

batch = Hexital("batch", candles(20), members())
batch.calculate()
ref = batch.reading_as_list("EMA_3")

print("EMA_3 before the sequence      :", before[-4:])
print("EMA_3 after purge/recalc/calc  :", after[-4:])
print("EMA_3 batch                    :", ref[-4:])
print("SMA_3 restored                 :", h.reading_as_list("SMA_3") == batch.reading_as_list("SMA_3"))

bad = after != ref

# the damage is permanent: later appends never re-join the batch readings
h.append(stream[20:])
batch2 = Hexital("batch2", candles(25), members())
batch2.calculate()
print("after 5 more appends, live     :", h.reading_as_list("EMA_3")[-5:])
print("after 5 more appends, batch    :", batch2.reading_as_list("EMA_3")[-5:])
bad = bad or h.reading_as_list("EMA_3") != batch2.reading_as_list("EMA_3")

if bad:
    print("VIOLATION (C14): calculate() does not converge to the batch state")
sys.exit(1 if bad else 0)
