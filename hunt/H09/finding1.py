"""C14 - re-registering an indicator under an existing name, then recalculate()/purge()/remove_indicator().

A not-yet-calculated Indicator object does not know the names of its helper series
(they are only created in _initialise(), on the first calculate()).  purge() on such an
object therefore removes only the top-level entry and leaves the helper series that the
previous holder of the name wrote.  The following calculate() then *reuses* those stale
helper readings (sub-indicators skip candles that already carry their key), so the
registered indicator does not end with its batch readings.

Sequence (all public API, the documented way of "changing an indicator's parameters
midway", see Hexital.recalculate docstring):
    h = Hexital(candles, [BBANDS(period=5)]); h.calculate()
    h.add_indicator(BBANDS(period=5, input_value="high"))   # same name BBANDS_5 -> replaces
    h.recalculate("BBANDS_5")
"""
import sys
from datetime import datetime, timedelta

from hexital import BBANDS, Candle, Hexital


def candles():
    out, t, p = [], datetime(2023, 6, 1, 9, 0), 100.0
    for i in range(30):
        o = p
        c = round(p + ((i * 7) % 11 - 5) * 0.37, 2)
        h = round(max(o, c) + 0.25 + (i % 3) * 0.4, 2)
        l = round(min(o, c) - 0.2 - (i % 4) * 0.3, 2)
        out.append(Candle(o, h, l, c, 100 + i, timestamp=t + timedelta(minutes=i)))
        p = c
    return out


bad = False

# ---- part A: recalculate() after a same-name re-registration does not give the batch readings
h = Hexital("live", candles(), [BBANDS(period=5)])
h.calculate()
h.add_indicator(BBANDS(period=5, input_value="high"))
h.recalculate("BBANDS_5")
h.calculate()

batch = Hexital("batch", candles(), [BBANDS(period=5, input_value="high")])
batch.calculate()

live, ref = h.reading_as_list("BBANDS_5"), batch.reading_as_list("BBANDS_5")
print("registered indicator :", h.indicator("BBANDS_5").settings)
print("live  BBANDS_5[-1]   :", live[-1])
print("batch BBANDS_5[-1]   :", ref[-1])
if live != ref:
    n = sum(a != b for a, b in zip(live, ref))
    print(f"VIOLATION (C14 convergence): {n} of {len(ref)} readings differ from the batch state "
          "after add_indicator + recalculate + calculate")
    bad = True

# ---- part B: purge()/remove_indicator() leave helper entries behind
h = Hexital("live", candles(), [{"indicator": "RSI", "period": 5}])
h.calculate()
h.add_indicator({"indicator": "RSI", "period": 5})  # identical config, same name
h.remove_indicator("RSI_5")
left = {k for c in h.candles() for k in (*c.indicators, *c.sub_indicators)}
print("registered indicators after remove_indicator:", list(h.indicators))
print("entries still on the candles               :", sorted(left))
if left:
    print("VIOLATION (C14 purge): helper series survive purge()/remove_indicator()")
    bad = True

sys.exit(1 if bad else 0)
