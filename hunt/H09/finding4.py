"""C01 / C11 / C12 (not my targets) - Heikin-Ashi + timeframe_fill: gap candles inserted by an
append are built from the previous candle's *converted* close.

CandleManager._tasks() runs collapse (incl. gap filling) -> convert.  In a batch run the
fill candle is created from the raw close of the previous bucket and converted afterwards.
When the gap is discovered by a later append, the previous bucket has already been converted
in place, so fill_missing_candles() copies its Heikin-Ashi close; the inserted candle (and,
through the HA-open recurrence, everything after it) differs from the batch result.
"""
import sys
from datetime import datetime, timedelta

from hexital import EMA, Candle


def stream():
    t = datetime(2023, 6, 1, 9, 0)
    rows = [  # minute, o, h, l, c, v   (gap between minute 5 and minute 16)
        (1, 100.0, 101.0, 99.5, 100.8, 10), (2, 100.8, 101.5, 100.2, 101.2, 12),
        (3, 101.2, 101.9, 100.9, 101.0, 9), (4, 101.0, 101.3, 100.1, 100.4, 7),
        (5, 100.4, 100.9, 99.8, 100.0, 11), (16, 100.0, 100.7, 99.6, 100.5, 8),
        (17, 100.5, 101.4, 100.3, 101.1, 6), (21, 101.1, 101.6, 100.7, 100.9, 5),
    ]
    return [Candle(o, h, l, c, v, timestamp=t + timedelta(minutes=m)) for m, o, h, l, c, v in rows]


def view(ind):
    return [(c.timestamp.strftime("%H:%M"), round(c.open, 6), round(c.high, 6), round(c.low, 6),
             round(c.close, 6), c.volume, c.indicators.get(ind.name)) for c in ind.candles]


kw = dict(period=2, timeframe="T5", timeframe_fill=True, candlestick_type="HA")

batch = EMA(candles=stream(), **kw)
batch.calculate()

live = EMA(**kw)
for candle in stream():
    live.append(candle)

a, b = view(batch), view(live)
for x, y in zip(a, b):
    print("batch", x)
    print("live ", y, "" if x == y else "   <-- differs")
if a != b:
    print("VIOLATION (C01): one-by-one appends != batch with HA + timeframe_fill")
    sys.exit(1)
sys.exit(0)
