"""C20 (not my target) - two accessor disagreements met while driving C14 sequences.

(a) Indicator.reading()/prev_reading() default to the *calculation cursor*, not to the latest
    candle.  After Hexital.calculate_index(name, i) on an older candle (a C14 operation that
    changes no reading) they silently answer for candle i / i-1, while has_reading,
    Hexital.reading()/prev_reading() and as_list()[-1] answer for the latest candle.

(b) An Amorph whose name equals a Candle attribute ("positive", "negative" - the names the
    library generates itself for {"analysis": "positive"}) is never read from the candle's
    indicator dict: reading_by_candle() returns the Candle property first.  So before any
    calculation and after purge() the accessors report readings although direct inspection
    of the candle shows none.
"""
import sys
from datetime import datetime, timedelta

from hexital import SMA, Candle, Hexital

t = datetime(2023, 6, 1, 9, 0)
cs = [Candle(100 + i, 101.5 + i, 99 + i, 100.5 + (i * 3) % 5, 10 + i, timestamp=t + timedelta(minutes=i))
      for i in range(10)]
bad = False

h = Hexital("h", cs, [SMA(period=3), {"analysis": "positive"}])
h.calculate()
ind = h.indicator("SMA_3")
print("(a) before: Indicator.reading() =", ind.reading(), " Hexital.reading() =", h.reading("SMA_3"))
h.calculate_index("SMA_3", 4)
h.calculate()
print("    after calculate_index(4): Indicator.reading() =", ind.reading(),
      " prev_reading() =", ind.prev_reading(),
      "| Hexital.reading() =", h.reading("SMA_3"), " prev =", h.prev_reading("SMA_3"),
      "| as_list()[-1] =", ind.as_list()[-1])
if ind.reading() != h.reading("SMA_3") or ind.prev_reading() != h.prev_reading("SMA_3"):
    print("VIOLATION (C20): Indicator.reading()/prev_reading() disagree with Hexital.reading()/prev_reading()")
    bad = True

h.purge("positive")
direct = [c.indicators.get("positive") for c in h.candles()]
print("(b) after purge('positive'): direct inspection =", direct[-3:],
      " reading_as_list =", h.reading_as_list("positive")[-3:],
      " has_reading =", h.has_reading("positive"), " reading_count =", h.indicator("positive").reading_count())
if h.reading_as_list("positive") != direct or h.has_reading("positive"):
    print("VIOLATION (C20): accessors report readings that are not on the candles")
    bad = True
sys.exit(1 if bad else 0)
