"""C09 (not my target; borderline on the input_value choice) - ROC divides by the input
`period` candles back without a zero guard.

With the default input (close, always > 0) nothing happens, but ROC accepts input_value
like every other indicator, and any input series that can legitimately be 0 makes
append()/calculate() raise ZeroDivisionError:
  * input_value="volume" with one zero-volume candle (well-formed per C09, and exactly what
    timeframe_fill inserts);
  * input_value="OBV" when the first candle has volume 0 (OBV starts at 0).
"""
import sys
from datetime import datetime, timedelta

from hexital import OBV, ROC, Candle, Hexital

t = datetime(2023, 6, 1, 9, 0)
vols = [10, 0, 12, 9, 14, 8]
cs = [Candle(100 + i, 101 + i, 99 + i, 100.5 + i, v, timestamp=t + timedelta(minutes=i))
      for i, v in enumerate(vols)]

bad = False
try:
    r = ROC(period=2, input_value="volume", candles=cs)
    r.calculate()
    print("ROC(volume):", r.as_list())
except ZeroDivisionError as exc:
    print("VIOLATION (C09): ROC(period=2, input_value='volume') raised ZeroDivisionError:", exc)
    bad = True

vols = [0, 5, 12, 9, 14, 8]
cs = [Candle(100 + i, 101 + i, 99 + i, 100.5 + i, v, timestamp=t + timedelta(minutes=i))
      for i, v in enumerate(vols)]
try:
    h = Hexital("h", cs, [OBV(), ROC(period=2, input_value="OBV")])
    h.calculate()
    print("ROC(OBV):", h.reading_as_list("ROC"))
except ZeroDivisionError as exc:
    print("VIOLATION (C09): ROC(period=2, input_value='OBV') raised ZeroDivisionError:", exc)
    bad = True

sys.exit(1 if bad else 0)
