"""C08 (not one of my two targets) - a Hexital-level timeframe corrupts members that carry
their own, finer (or non-multiple) timeframe.

Hexital(timeframe="T10") first collapses the base candles to T10.  A member with
timeframe="T5" gets its candle manager from Hexital._raw_candles(), i.e. from the already
collapsed T10 candles, not from the stream the user supplied.  So
  (a) the member's candles/readings for everything given at construction differ from a
      standalone SMA(timeframe="T5") fed the same stream, and
  (b) the next append hands the member a raw candle that is *older* than its newest
      (bucket-end labelled) T10 candle -> InvalidCandleOrder out of Hexital.append().
"""
import sys
from datetime import datetime, timedelta

from hexital import SMA, Candle, Hexital


def candles(n):
    out, t, p = [], datetime(2023, 6, 1, 9, 0), 100.0
    for i in range(1, n + 1):
        o = p
        c = round(p + ((i * 7) % 11 - 5) * 0.37, 2)
        out.append(Candle(o, max(o, c) + 0.3, min(o, c) - 0.3, c, 100 + i,
                          timestamp=t + timedelta(minutes=i)))
        p = c
    return out


def view(cs, name):
    return [(c.timestamp.strftime("%H:%M"), c.open, c.high, c.low, c.close, c.volume,
             c.indicators.get(name)) for c in cs]


bad = False
N0, N1 = 23, 30

alone = SMA(period=2, timeframe="T5", candles=candles(N0))
alone.calculate()

h = Hexital("h", candles(N0), [SMA(period=2, timeframe="T5")], timeframe="T10")
h.calculate()
member = h.indicator("SMA_2_T5")

a, b = view(alone.candles, "SMA_2_T5"), view(member.candles, "SMA_2_T5")
print("standalone T5 :", a)
print("member     T5 :", b)
if a != b:
    print("VIOLATION (C08): member candles/readings differ from the standalone twin")
    bad = True

try:
    h.append(candles(N1)[N0:])
    alone.append(candles(N1)[N0:])
    if view(alone.candles, "SMA_2_T5") != view(member.candles, "SMA_2_T5"):
        bad = True
except Exception as exc:  # noqa
    print("VIOLATION (C08/C09): Hexital.append raised", type(exc).__name__, "-", str(exc)[:110], "...")
    bad = True

sys.exit(1 if bad else 0)
