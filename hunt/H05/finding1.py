"""finding1 - C10 (and C04): SMA leaves the range of the inputs it averages.

SMA updates incrementally from its own *rounded* previous reading
(hexital/indicators/sma.py: prev_reading() - (x[t-period] - x[t]) / period), so
  (a) whenever the true per-candle change of the mean is smaller than half a rounding
      unit, the update is rounded away and the SMA freezes while the prices walk off;
  (b) otherwise the rounding error of every step is kept for ever and random-walks.
Both make the reading fall outside [min(window), max(window)] by (much) more than the
rounding slack of 0.5 * 10**-round_value, which C10 ("averages lie within the range of
their inputs") and C04 ("every reading lies between the smallest and largest input it
averages") exclude.

Only the public API is used; the stream is well formed (positive prices, l<=o,c<=h).
"""
import random
import sys
from datetime import datetime, timedelta

from hexital import SMA, Candle


def run(title, closes, period, round_value):
    t0 = datetime(2024, 1, 1)
    candles = [
        Candle(open=c, high=c, low=c, close=c, volume=10, timestamp=t0 + timedelta(minutes=i))
        for i, c in enumerate(closes)
    ]
    kwargs = {} if round_value is None else {"round_value": round_value}
    sma = SMA(candles=candles, period=period, **kwargs)
    sma.calculate()
    slack = 0.5 * 10 ** (-sma.round_value) * 1.0001
    worst = (0.0, None)
    n_bad = 0
    for i, got in enumerate(sma.as_list()):
        if got is None:
            continue
        window = closes[i - period + 1 : i + 1]
        lo, hi = min(window), max(window)
        excess = max(lo - got, got - hi)
        if excess > slack:
            n_bad += 1
            if excess > worst[0]:
                worst = (excess, (i, got, lo, hi, sum(window) / period))
    print(f"--- {title}: SMA(period={period}, round_value={sma.round_value}), {len(closes)} candles")
    print(f"    readings outside [min(window), max(window)] by more than {slack:.1e}: {n_bad}")
    if worst[1]:
        i, got, lo, hi, mean = worst[1]
        print(f"    worst: index {i}: SMA={got}  window=[{lo:.6f}, {hi:.6f}]  true mean={mean:.6f}"
              f"  -> outside by {worst[0]:.6f} = {worst[0] / (slack / 1.0001):.0f} x the rounding slack")
    print(f"    last 3 readings: {sma.as_list()[-3:]}  last 3 closes: {[round(c, 6) for c in closes[-3:]]}")
    return n_bad


bad = 0

# (a) default round_value (4): a 5-decimal quote that rises 0.00004 per candle.
closes = [round(1.0 + 0.00004 * i, 5) for i in range(1000)]
bad += run("slow ramp, default rounding", closes, 10, None)

# (a') coarser rounding the user asked for: prices rise 0.04 per candle, round_value=1
closes = [round(100 + 0.04 * i, 2) for i in range(1000)]
bad += run("slow ramp, round_value=1", closes, 10, 1)

# (b) ordinary 2-decimal prices, then the price stops moving: the SMA of a constant
#     window must be that constant; the library keeps the accumulated error.
rng = random.Random(11)
p = 100.0
closes = []
for _ in range(3000):
    p = round(max(1.0, p + rng.uniform(-1, 1)), 2)
    closes.append(p)
closes += [p] * 15
bad += run("random walk then constant", closes, 7, None)

print()
if bad:
    print(f"VIOLATION: {bad} SMA readings lie outside the range of the inputs they average")
    sys.exit(1)
print("property held")
