"""finding4 - C06 (and the OBV clause of C10): OBV loses or invents volume when volumes are fractional.

OBV is defined as the running sum of +volume / -volume / 0.  The library adds each candle's
volume to its own previous *rounded* reading (hexital/indicators/obv.py: prev_reading() +/-
reading("volume"), then round to round_value), so the rounding error of every single step is
kept for ever:
  * volumes below half a rounding unit (0.00004 BTC lots with the default 4 decimals) are
    dropped completely - OBV stays 0.0 however much is traded; the reading does not move by
    "0 or the candle's volume" in any useful sense and never equals the definition again;
  * volumes with a 5th decimal (0.12345) are rounded the same way on every candle, so the
    error grows linearly with the number of candles instead of staying within one rounding unit.
Streams are well formed (positive prices, l<=o,c<=h, volume >= 0); only the public API is used.
"""
import sys
from datetime import datetime, timedelta

from hexital import OBV, Candle


def reference(closes, vols):
    out = [vols[0]]
    for i in range(1, len(closes)):
        if closes[i] > closes[i - 1]:
            out.append(out[-1] + vols[i])
        elif closes[i] < closes[i - 1]:
            out.append(out[-1] - vols[i])
        else:
            out.append(out[-1])
    return out


def run(title, closes, vols, **kw):
    t0 = datetime(2024, 1, 1)
    cs = [
        Candle(open=c, high=c + 1, low=c - 1, close=c, volume=v, timestamp=t0 + timedelta(minutes=i))
        for i, (c, v) in enumerate(zip(closes, vols))
    ]
    obv = OBV(candles=cs, **kw)
    obv.calculate()
    got, exp = obv.as_list(), reference(closes, vols)
    unit = 10 ** (-obv.round_value)
    errs = [abs(g - e) for g, e in zip(got, exp)]
    over = sum(e > unit for e in errs)  # allow a full rounding unit, twice the honest slack
    print(f"--- {title} ({len(cs)} candles, round_value={obv.round_value})")
    for i in (0, 1, 2, len(cs) // 2, len(cs) - 1):
        print(f"    index {i:5d}: OBV lib = {got[i]!r:<12}  definition = {exp[i]:.5f}")
    print(f"    max |lib - definition| = {max(errs):.5f} = {max(errs) / unit:.0f} rounding units; "
          f"readings off by more than one unit: {over}/{len(cs)}")
    return over


bad = 0
n = 2000
rising = [100 + 0.5 * i for i in range(n)]
bad += run("every candle closes higher, volume 0.00004 each", rising, [0.00004] * n)
bad += run("every candle closes higher, volume 0.12345 each", rising, [0.12345] * n)
zigzag = [100 + (i % 3) for i in range(n)]  # up, up, down, ...
bad += run("zig-zag closes, volume 0.00126 each, round_value=2", zigzag, [0.00126] * n, round_value=2)

print()
if bad:
    print(f"VIOLATION: {bad} OBV readings differ from the definition by more than a full rounding unit")
    sys.exit(1)
print("property held")
