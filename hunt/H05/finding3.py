"""finding3 - C06: MACD, TSI and ADX do not equal their definitions "within rounding error":
their internal helper series are rounded to a hard-wired 4 decimals, whatever round_value
the user configured and whatever the price scale is, and the final value is a *ratio* or a
*difference* of those rounded helpers.

  * MACD(round_value=8) is built from EMA helpers rounded to 4 decimals
    (hexital/indicators/macd.py: EMA(...) created without round_value), so the reading carries
    8 decimals of which only ~3 are right - the error is ~10^4 x the configured rounding unit.
  * TSI = 100 * EMA(EMA(m)) / EMA(EMA(|m|)) where every EMA helper is rounded to 4 decimals
    (hexital/indicators/tsi.py).  On an instrument quoted with 5 decimals (any FX pair) the
    smoothed momentum is ~1e-4, i.e. ONE rounding unit: the quotient is noise (wrong by tens
    of points, wrong sign, or "-0.0").
  * ADX: +DI/-DI = 100 * RMA(dm) / ATR with ATR and both RMA helpers rounded to 4 decimals
    (hexital/indicators/adx.py); the recursive ATR/RMA update even freezes, because a change
    of (x - prev)/period < 0.00005 is rounded away.  +DI, -DI and ADX are off by tens of points.

The stream below is an ordinary EURUSD-like one-minute series (5-decimal quotes around 1.085,
well formed, positive, l<=o,c<=h, integer volumes).  The references are the textbook
definitions computed in plain floats from the raw candles, seeded exactly like the library
(EMA: SMA seed; Wilder/RMA: the library's decay-weighted seed; ATR: mean of first TRs).
"""
import random
import sys
from datetime import datetime, timedelta

from hexital import ADX, MACD, TSI, Candle

rng = random.Random(20240102)
rows, price, t = [], 1.08500, datetime(2024, 1, 2, 9, 0)
for _ in range(400):
    o = price
    c = round(o + rng.uniform(-0.0005, 0.0005), 5)
    h = round(max(o, c) + rng.uniform(0, 0.0002), 5)
    l = round(min(o, c) - rng.uniform(0, 0.0002), 5)
    rows.append((o, h, l, c, rng.randint(1, 500), t))
    price, t = c, t + timedelta(minutes=1)
assert all(0 < l <= min(o, c) <= max(o, c) <= h for o, h, l, c, _, _ in rows)


def candles():
    return [Candle(o, h, l, c, v, timestamp=ts) for o, h, l, c, v, ts in rows]


# ---------------------------------------------------------------- independent definitions
def ema(x, p):
    a, out, prev, run = 2.0 / (p + 1), [None] * len(x), None, 0
    for i, v in enumerate(x):
        if v is None:
            continue
        run += 1
        if prev is not None:
            prev = a * v + (1 - a) * prev
        elif run >= p:
            prev = sum(x[i - p + 1 : i + 1]) / p
        out[i] = prev
    return out


def rma(x, p):
    a, out, prev, run = 1.0 / p, [None] * len(x), None, 0
    for i, v in enumerate(x):
        if v is None:
            continue
        run += 1
        if prev is not None:
            prev = a * v + (1 - a) * prev
        elif run >= p:
            prev = sum((1 - a) ** k * x[i - k] for k in range(p)) / sum((1 - a) ** k for k in range(p))
        out[i] = prev
    return out


close = [r[3] for r in rows]
high = [r[1] for r in rows]
low = [r[2] for r in rows]
n = len(rows)


def ref_macd(f, s, g):
    ef, es = ema(close, f), ema(close, s)
    line = [None if es[i] is None else ef[i] - es[i] for i in range(n)]
    sig = ema(line, g)
    return line, sig, [None if sig[i] is None else line[i] - sig[i] for i in range(n)]


def ref_tsi(p, sp):
    m = [None] + [close[i] - close[i - 1] for i in range(1, n)]
    num = ema(ema(m, p), sp)
    den = ema(ema([None if v is None else abs(v) for v in m], p), sp)
    return [None if den[i] is None else (0.0 if den[i] == 0 else 100 * num[i] / den[i]) for i in range(n)]


def ref_adx(p):
    tr = [None] + [max(high[i] - low[i], abs(high[i] - close[i - 1]), abs(low[i] - close[i - 1])) for i in range(1, n)]
    atr, prev = [None] * n, None
    for i in range(n):
        if prev is not None:
            prev = (prev * (p - 1) + tr[i]) / p
        elif i >= p:
            prev = sum(tr[i - p + 1 : i + 1]) / p
        atr[i] = prev
    pos, neg = [0.0] * n, [0.0] * n
    for i in range(1, n):
        up, dn = high[i] - high[i - 1], low[i - 1] - low[i]
        pos[i] = up if up > dn and up > 0 else 0.0
        neg[i] = dn if dn > up and dn > 0 else 0.0
    sp_, sn_ = rma(pos, p), rma(neg, p)
    dip, din, dx = [None] * n, [None] * n, [None] * n
    for i in range(n):
        if atr[i] is None or sp_[i] is None:
            continue
        dip[i], din[i] = 100 * sp_[i] / atr[i], 100 * sn_[i] / atr[i]
        dx[i] = 100 * abs(dip[i] - din[i]) / (dip[i] + din[i]) if dip[i] + din[i] else 0.0
    return rma(dx, p), dip, din


def compare(label, got, exp, tol, show=(200, 201, 202)):
    assert len(got) == len(exp)
    errs = [(abs(g - e), i) for i, (g, e) in enumerate(zip(got, exp)) if g is not None and e is not None]
    warm = sum((g is None) != (e is None) for g, e in zip(got, exp))
    worst, at = max(errs)
    over = sum(e > tol for e, _ in errs)
    flips = sum(1 for g, e in zip(got, exp) if g is not None and e is not None and g * e < 0 and abs(e) > 1)
    print(f"{label:32s} max|lib-def|={worst:<12.6g} (index {at}: lib={got[at]!r} def={exp[at]:.6f})  "
          f">tol({tol:g}): {over}/{len(errs)}  sign flips: {flips}  warm-up mismatches: {warm}")
    print(f"{'':32s} sample {[(i, got[i], round(exp[i], 6)) for i in show]}")
    return over


bad = 0
print("== MACD(12, 26, 9, round_value=8): rounding unit 1e-8, tolerance used 1e-6")
m = MACD(candles=candles(), round_value=8)
m.calculate()
line, sig, hist = ref_macd(12, 26, 9)
bad += compare("MACD line", m.as_list(f"{m.name}.MACD"), line, 1e-6)
bad += compare("MACD signal", m.as_list(f"{m.name}.signal"), sig, 1e-6)
bad += compare("MACD histogram", m.as_list(f"{m.name}.histogram"), hist, 1e-6)

print("== TSI(25, 13), default rounding AND round_value=8: tolerance used 0.5 (scale is -100..100)")
for rv in (4, 8):
    ts = TSI(candles=candles(), round_value=rv)
    ts.calculate()
    bad += compare(f"TSI round_value={rv}", ts.as_list(), ref_tsi(25, 13), 0.5)

print("== ADX(14), default rounding AND round_value=8: tolerance used 0.5 (scale is 0..100)")
for rv in (4, 8):
    ad = ADX(candles=candles(), round_value=rv)
    ad.calculate()
    a, dp, dn = ref_adx(14)
    bad += compare(f"ADX  round_value={rv}", ad.as_list(f"{ad.name}.ADX"), a, 0.5)
    bad += compare(f"+DI  round_value={rv}", ad.as_list(f"{ad.name}.DM_Plus"), dp, 0.5)
    bad += compare(f"-DI  round_value={rv}", ad.as_list(f"{ad.name}.DM_Neg"), dn, 0.5)

print()
if bad:
    print(f"VIOLATION: {bad} readings differ from their definition by far more than rounding error")
    sys.exit(1)
print("property held")
