"""finding2 - C10: Stochastic %K and %D leave [0, 100] (negative values, values above 100).

STOCH builds %K = SMA(stoch, smoothing_k) and %D = SMA(%K, slow_period) with the library's
SMA, which updates from its own rounded previous reading and therefore keeps every
rounding error for ever (see finding1).  As soon as the raw stochastic sits on 0 (or 100)
for a whole smoothing window the true %K is exactly 0 (100), but the library reports the
accumulated error, e.g. -0.0002: outside the documented [0, 100] band, on the wrong side
of zero, and stuck there for as long as the market keeps making new lows.

28 well-formed candles, default STOCH parameters (14, 3, 3), default rounding.
"""
import sys

from hexital import STOCH, Candle

OHLC = [
    (100.0, 100.74, 99.74, 100.35), (100.35, 100.57, 99.85, 100.37), (100.37, 100.44, 99.82, 99.95),
    (99.95, 100.11, 99.34, 99.47), (99.47, 99.63, 98.53, 98.69), (98.69, 98.93, 98.65, 98.83),
    (98.83, 99.1, 98.05, 98.24), (98.24, 99.11, 98.03, 98.71), (98.71, 99.07, 97.53, 97.91),
    (97.91, 98.24, 97.55, 97.7), (97.7, 98.95, 97.3, 98.53), (98.53, 99.56, 98.26, 99.44),
    (99.44, 100.3, 99.24, 99.9), (99.9, 100.21, 99.13, 99.18), (99.18, 99.59, 98.95, 99.59),
    (99.59, 99.65, 99.31, 99.55), (99.55, 99.73, 99.1, 99.55), (99.55, 100.73, 99.43, 100.28),
    (100.28, 100.47, 99.27, 99.33), (99.33, 99.87, 99.27, 99.74),
    # eight candles that close on their low, each a new 14-candle low -> raw stochastic 0
    (99.74, 99.74, 98.74, 98.74), (98.74, 98.74, 97.74, 97.74), (97.74, 97.74, 96.74, 96.74),
    (96.74, 96.74, 95.74, 95.74), (95.74, 95.74, 94.74, 94.74), (94.74, 94.74, 93.74, 93.74),
    (93.74, 93.74, 92.74, 92.74), (92.74, 92.74, 91.74, 91.74),
]
for o, h, l, c in OHLC:
    assert 0 < l <= min(o, c) <= max(o, c) <= h

PERIOD, SMOOTH_K, SLOW = 14, 3, 3


def reference(rows):
    """%stoch, %K, %D straight from the definition (no incremental state)."""
    n = len(rows)
    st = [None] * n
    for i in range(PERIOD - 1, n):
        lo = min(r[2] for r in rows[i - PERIOD + 1 : i + 1])
        hi = max(r[1] for r in rows[i - PERIOD + 1 : i + 1])
        st[i] = 0.0 if hi == lo else (rows[i][3] - lo) / (hi - lo) * 100

    def sma(x, p):
        return [
            None if i < p - 1 or x[i - p + 1] is None else sum(x[i - p + 1 : i + 1]) / p
            for i in range(len(x))
        ]

    k = sma(st, SMOOTH_K)
    return st, k, sma(k, SLOW)


stoch = STOCH(candles=[Candle(o, h, l, c, 100) for o, h, l, c in OHLC])
stoch.calculate()
ref_st, ref_k, ref_d = reference(OHLC)

slack = 0.5 * 10 ** (-stoch.round_value) * 1.0001
bad = []
print("idx   stoch      %K (lib)   %K (def)    %D (lib)   %D (def)")
for i, r in enumerate(stoch.as_list()):
    if r["stoch"] is None:
        continue
    print(f"{i:3d}  {r['stoch']:8.4f}  {str(r['k']):>10}  {str(None if ref_k[i] is None else round(ref_k[i], 4)):>10}"
          f"  {str(r['d']):>10}  {str(None if ref_d[i] is None else round(ref_d[i], 4)):>10}")
    for field in ("stoch", "k", "d"):
        v = r[field]
        if v is not None and not (0 - slack <= v <= 100 + slack):
            bad.append((i, field, v))

print()
if bad:
    print(f"VIOLATION: {len(bad)} Stochastic readings outside [0, 100] (slack {slack:.1e}):")
    for b in bad:
        print("   index %d  %s = %r" % b)
    sys.exit(1)
print("property held")
