"""finding2 - C15 (second clause) and C02 (readings of closed candles are final), with candles_lifespan.

If a trim leaves exactly ONE already-calculated candle in front of the newly appended one(s),
Indicator._find_calc_index() falls through to `return 0` (its backwards loop never looks at index 0),
so calculate() restarts at index 0.  Top-level readings are protected by the "already has a reading ->
continue" test, but helper (sub-)indicators are not: their readings on that surviving old candle are
recomputed with no history and overwritten (TR -> None, helper EMA -> None, helper ATR -> None,
helper STDEV running mean/variance -> restarted).  The purely recursive indicators that keep their
state in such helpers (MACD, KC, Supertrend, ADX) therefore lose their state and fall back to None /
re-seed, although the one predecessor they need IS still retained.  A plain EMA / ATR (same recursion,
but top-level) is unaffected, which shows the look-back really is available.

Scenario: 1-minute candles, candles_lifespan = 30 minutes, 12 candles of warm-up, then the feed is
silent for 29.5 minutes and one more candle arrives.  The trim of that append keeps candle 09:12 and the
new candle 09:41:30, i.e. the new candle's predecessor survives.

Run:  cd /tmp/w6-H02 && /venv/bin/python finding2.py
"""
import copy
import random
import sys
from datetime import datetime, timedelta

from hexital import Candle
from hexital.indicators import ADX, ATR, EMA, KC, MACD, Supertrend

T0 = datetime(2024, 1, 1, 9, 0)
LIFESPAN = timedelta(minutes=30)

rng = random.Random(7)
rows, price = [], 100.0
for minute in list(range(1, 13)) + [41.5]:
    o = price
    c = round(price + rng.uniform(-2, 2), 2)
    h = round(max(o, c) + rng.uniform(0, 1), 2)
    l = round(min(o, c) - rng.uniform(0, 1), 2)
    price = c
    rows.append((T0 + timedelta(minutes=minute), o, h, l, c, rng.randint(1, 100)))


def candles(rs):
    return [Candle(o, h, l, c, v, timestamp=t) for (t, o, h, l, c, v) in rs]


CASES = [
    ("EMA (control)", EMA, dict(period=5)),
    ("ATR (control)", ATR, dict(period=5)),
    ("MACD", MACD, dict(fast_period=3, slow_period=6, signal_period=3)),
    ("KC", KC, dict(period=5)),
    ("Supertrend", Supertrend, dict(period=5)),
    ("ADX", ADX, dict(period=5)),
]

violations = []
for label, cls, kw in CASES:
    trimmed = cls(candles_lifespan=LIFESPAN, **kw)
    plain = cls(**kw)
    for c in candles(rows[:-1]):
        trimmed.append(c)
    for c in candles(rows):
        plain.append(c)

    # state of the newest candle (09:12) BEFORE the next append - a closed base-timeframe candle
    before = copy.deepcopy((trimmed.candles[-1].timestamp, trimmed.candles[-1].indicators,
                            trimmed.candles[-1].sub_indicators))
    trimmed.append(candles(rows[-1:])[0])

    kept = [c.timestamp.strftime("%H:%M:%S") for c in trimmed.candles]
    old = trimmed.candles[0]
    after = (old.timestamp, old.indicators, old.sub_indicators)

    exp_window = [t for (t, *_r) in rows if t >= rows[-1][0] - LIFESPAN]
    assert [c.timestamp for c in trimmed.candles] == exp_window, "window itself is wrong"

    got = trimmed.as_list()
    want = plain.as_list()[-len(got):]
    print(f"--- {label}: retained {kept}")
    print("    readings with lifespan   :", got)
    print("    readings without trimming:", want)
    if before != after:
        changed = {k: (before[2][k], after[2].get(k)) for k in before[2] if before[2][k] != after[2].get(k)}
        print("    helper readings on closed candle 09:12 changed by the later append (before, after):")
        for k, v in changed.items():
            print("       ", k, v)
        violations.append(f"C02: {label}: readings stored on closed candle 09:12 changed after a later append")
    if got != want:
        violations.append(f"C15: {label}: readings on retained candles differ from the untrimmed run "
                          f"although the predecessor candle is retained")

if violations:
    print("VIOLATION:")
    for v in violations:
        print("  -", v)
    sys.exit(1)
print("property held")
sys.exit(0)
