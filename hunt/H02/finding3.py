"""finding3 - C08 (member == standalone twin) and C09 (never raises): Hexital-level timeframe plus a
member with its own, finer timeframe, with candles supplied at construction.

Hexital._validate_indicators() seeds the candle manager of a member timeframe from
Hexital._raw_candles(), i.e. from a copy of the DEFAULT manager's candles.  When the Hexital itself has a
timeframe those candles are already collapsed (and right-labelled) on the Hexital timeframe, so a member
with a finer timeframe (here S30 / S10 inside a T1 Hexital)
  (a) gets the coarse T1 candles as its history instead of S30 buckets of the raw stream, and
  (b) holds the still-forming T1 bucket labelled with a FUTURE timestamp, so the next appended raw
      candle is either merged into the wrong bucket or rejected with InvalidCandleOrder.
The same stream appended to an empty Hexital (or fed to a standalone indicator) gives the right buckets.

Run:  cd /tmp/w6-H02 && /venv/bin/python finding3.py
"""
import sys
from datetime import datetime, timedelta

from hexital import Candle, Hexital
from hexital.indicators import SMA

T0 = datetime(2024, 1, 1, 9, 0)
# one raw candle every 20 seconds: 09:00:20, 09:00:40, ... 09:04:00
ROWS = [(T0 + timedelta(seconds=20 * i + 20), 100 + i, 101 + i, 99 + i, 100.5 + i, 10) for i in range(12)]


def candles(rs):
    return [Candle(o, h, l, c, v, timestamp=t) for (t, o, h, l, c, v) in rs]


def view(cands, name):
    return [(c.timestamp.strftime("%H:%M:%S"), c.open, c.high, c.low, c.close, c.volume, c.indicators.get(name))
            for c in cands]


violations = []
for member_tf, preload in (("S30", 12), ("S30", 4), ("S10", 4)):
    twin = SMA(period=2, timeframe=member_tf, candles=candles(ROWS))
    twin.calculate()
    want = view(twin.candles, twin.name)
    print(f"=== Hexital(timeframe='T1') with member SMA(period=2, timeframe='{member_tf}'), "
          f"{preload} candles at construction, {len(ROWS) - preload} appended")
    try:
        hx = Hexital("h", candles(ROWS[:preload]), [SMA(period=2, timeframe=member_tf), SMA(period=2)],
                     timeframe="T1")
        for c in candles(ROWS[preload:]):
            hx.append(c)
        hx.calculate()
    except Exception as exc:  # C09 / C08: must not raise
        print("    raised", type(exc).__name__, "-", str(exc)[:110], "...")
        violations.append(f"C09/C08: member {member_tf}, preload {preload}: append raised {type(exc).__name__}")
        continue
    got = view(hx.candles(member_tf), twin.name)
    print("    member  :", [(g[0], g[5], g[6]) for g in got])
    print("    twin    :", [(w[0], w[5], w[6]) for w in want])
    if got != want:
        violations.append(f"C08: member {member_tf}, preload {preload}: collapsed candles/readings differ "
                          f"from the standalone twin")

# control: same configuration, everything appended -> fine
hx = Hexital("h", [], [SMA(period=2, timeframe="S30"), SMA(period=2)], timeframe="T1")
for c in candles(ROWS):
    hx.append(c)
twin = SMA(period=2, timeframe="S30", candles=candles(ROWS))
twin.calculate()
print("control (all candles appended) equal to twin:", view(hx.candles("S30"), twin.name) == view(twin.candles, twin.name))

if violations:
    print("VIOLATION:")
    for v in violations:
        print("  -", v)
    sys.exit(1)
print("property held")
sys.exit(0)
