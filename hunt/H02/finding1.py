"""finding1 - C11 (also C02 / C01 / C12): Heikin-Ashi + timeframe_fill + incremental appends.

When a gap is filled during an append(), the inserted flat candles take their price from
`prev_candle.close` - but in an incremental run the previous candle has ALREADY been converted to
Heikin-Ashi, so the fill candle is built from the HA close instead of the raw close of the previous
bucket.  The same stream given at construction (collapse -> fill -> convert) fills from the raw close.

So, for the same stream:
  * live candles/readings  !=  batch candles/readings                         (C01, C02 "live or batch")
  * the converted candles are not the HA recurrence of the collapsed raw series (C11)
  * the raw values "recoverable" from the fill candle are not the previous raw close (C11, C12)

Run:  cd /tmp/w6-H02 && /venv/bin/python finding1.py
"""
import sys
from datetime import datetime, timedelta

from hexital import Candle
from hexital.indicators import SMA

T0 = datetime(2024, 1, 1, 9, 0, 0)

# (seconds after 09:00, open, high, low, close, volume): two 1-minute candles, a 3-bucket hole, one more
ROWS = [
    (60, 10, 12, 9, 11, 5),
    (120, 11, 13, 10, 12, 5),
    (360, 12, 15, 11, 14, 5),
]


def candles():
    return [Candle(o, h, l, c, v, timestamp=T0 + timedelta(seconds=s)) for (s, o, h, l, c, v) in ROWS]


def reference():
    """Independent: right-closed T1 buckets (one raw candle each here), gap filled flat at the
    previous RAW close, then the Heikin-Ashi recurrence."""
    raw = []
    for s, o, h, l, c, v in ROWS:
        ts = T0 + timedelta(seconds=s)
        while raw and raw[-1][0] + timedelta(minutes=1) < ts:
            pc = raw[-1][4]
            raw.append((raw[-1][0] + timedelta(minutes=1), pc, pc, pc, pc, 0))
        raw.append((ts, o, h, l, c, v))
    out = []
    for i, (ts, o, h, l, c, v) in enumerate(raw):
        hc = (o + h + l + c) / 4
        ho = (o + c) / 2 if i == 0 else (out[-1][1] + out[-1][4]) / 2
        out.append((ts, ho, max(h, ho, hc), min(l, ho, hc), hc, v))
    return raw, out


def view(ind):
    return [(c.timestamp, c.open, c.high, c.low, c.close, c.volume) for c in ind.candles]


CFG = dict(period=2, timeframe="T1", timeframe_fill=True, candlestick_type="HA")

batch = SMA(candles=candles(), **CFG)
batch.calculate()

live = SMA(**CFG)
for c in candles():
    live.append(c)

raw_ref, ha_ref = reference()

print("bucket    reference-HA (o,h,l,c)            batch (o,h,l,c)                  live (o,h,l,c)")
for r, b, l in zip(ha_ref, view(batch), view(live)):
    print(r[0].strftime("%H:%M"), r[1:5], b[1:5], l[1:5])
print("SMA_2 batch:", batch.as_list())
print("SMA_2 live :", live.as_list())
print("raw values recoverable from live fill candle 09:03:",
      {k: live.candles[2].clean_values.get(k) for k in ("open", "high", "low", "close")},
      "- previous raw close is", raw_ref[1][4])

bad = []
if view(batch) != ha_ref:
    bad.append("batch candles differ from the HA recurrence of the filled raw series")
if view(live) != ha_ref:
    bad.append("C11: live (appended) candles differ from the HA recurrence of the collapsed+filled raw series")
if view(live) != view(batch) or live.as_list() != batch.as_list():
    bad.append("C01/C02: live candles/readings differ from batch candles/readings for the same stream")
if live.candles[2].clean_values.get("close") != raw_ref[1][4]:
    bad.append("C11/C12: raw value kept for the inserted candle is not the previous candle's raw close")

if bad:
    print("VIOLATION:")
    for b in bad:
        print("  -", b)
    sys.exit(1)
print("property held")
sys.exit(0)
