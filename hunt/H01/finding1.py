"""C15 (second clause): lifespan trimming changes the readings of KC / MACD / Supertrend / ADX
although every new candle still has its predecessor inside the retained window.

KC, MACD, Supertrend and ADX are purely recursive after warm-up (EMA / Wilder recursions: a new
reading needs the new candle and the state stored on the ONE candle before it).  Whenever a
trim leaves exactly one already-computed candle in front of the new candle(s), their readings
go wrong (None, then a fresh warm-up with different values), while the untrimmed twin - and
EMA / RMA / ATR / RSI / TSI in exactly the same situation - carry on normally.

Two schedules are shown:
  A. 1-minute candles, lifespan 30 min, single appends, then ONE chunk of 30 candles
     (window after the trim = 1 old candle + the 30 new ones);
  B. a dense warm-up burst (1 s apart) followed by 1-minute candles with lifespan 1 min
     (window after every trim = predecessor + new candle), single appends only.
Only the public API is used.  Exit code 1 when the property is violated.
"""
import sys
from datetime import datetime, timedelta

from hexital import Candle
from hexital.indicators import ADX, ATR, EMA, KC, MACD, RSI, Supertrend


def candle(i, ts):
    # deterministic, well-formed wavy prices
    base = 100 + 10 * ((i * 7) % 13) / 13 + (i % 5)
    o = round(base, 2)
    c = round(base + ((i * 3) % 7) - 3, 2)
    h = round(max(o, c) + 1 + (i % 3), 2)
    l = round(min(o, c) - 1 - (i % 2), 2)
    return Candle(open=o, high=h, low=l, close=c, volume=100 + i, timestamp=ts)


def schedule_a():
    """[(list_of_candles_to_append)], lifespan"""
    t0 = datetime(2023, 5, 1, 10, 0)
    appends = [[candle(i, t0 + timedelta(minutes=i))] for i in range(60)]
    appends.append([candle(i, t0 + timedelta(minutes=i)) for i in range(60, 90)])  # one chunk of 30
    appends += [[candle(i, t0 + timedelta(minutes=i))] for i in range(90, 100)]
    return appends, timedelta(minutes=30)


def schedule_b():
    t0 = datetime(2023, 5, 1, 9, 59, 0)
    appends = [[candle(i, t0 + timedelta(seconds=i))] for i in range(40)]  # burst, all within 1 min
    t1 = datetime(2023, 5, 1, 10, 0)
    appends += [[candle(40 + i, t1 + timedelta(minutes=i))] for i in range(20)]
    return appends, timedelta(minutes=1)


FACTORIES = {
    "EMA(5)   [control]": lambda **k: EMA(period=5, **k),
    "ATR(5)   [control]": lambda **k: ATR(period=5, **k),
    "RSI(5)   [control]": lambda **k: RSI(period=5, **k),
    "KC(5)": lambda **k: KC(period=5, **k),
    "MACD(3,5,4)": lambda **k: MACD(fast_period=3, slow_period=5, signal_period=4, **k),
    "Supertrend(5)": lambda **k: Supertrend(period=5, **k),
    "ADX(5)": lambda **k: ADX(period=5, **k),
}

violations = 0
for sched_name, sched in (("A: chunk of 30 into a 30-minute window", schedule_a),
                          ("B: burst then sparse, 1-minute window", schedule_b)):
    print("=== schedule", sched_name)
    for name, fac in FACTORIES.items():
        appends, life = sched()
        plain = fac()
        trimmed = fac(candles_lifespan=life)
        first_bad = None
        for step, chunk in enumerate(appends):
            before = len(plain.candles)
            plain.append([Candle(c.open, c.high, c.low, c.close, c.volume, timestamp=c.timestamp) for c in chunk])
            trimmed.append(chunk)
            # clause 1: the retained window
            newest = plain.candles[-1].timestamp
            want = [c.timestamp for c in plain.candles if c.timestamp >= newest - life]
            got = [c.timestamp for c in trimmed.candles]
            assert want == got, "window wrong"
            # pre-condition of clause 2: the first new candle still has its predecessor in the window
            kept_from = len(plain.candles) - len(trimmed.candles)
            assert before == 0 or kept_from <= before - 1, "predecessor was trimmed - outside the property"
            a = plain.as_list()[kept_from:]
            b = trimmed.as_list()
            if a != b and first_bad is None:
                idx = next(i for i, (x, y) in enumerate(zip(a, b)) if x != y)
                first_bad = (step, len(chunk), len(trimmed.candles), trimmed.candles[idx].timestamp, a[idx], b[idx])
        a = plain.as_list()[len(plain.candles) - len(trimmed.candles):]
        b = trimmed.as_list()
        ndiff = sum(1 for x, y in zip(a, b) if x != y)
        if first_bad:
            violations += 1
            step, k, win, ts, x, y = first_bad
            print(f"  {name:20s} VIOLATED: first at append #{step} (chunk of {k}, window {win} candles), candle {ts}:")
            print(f"        untrimmed : {x}")
            print(f"        lifespan  : {y}")
            print(f"        at the end {ndiff} of the {len(b)} retained candles differ; last: {a[-1]}  vs  {b[-1]}")
        else:
            print(f"  {name:20s} ok (identical on the retained candles after every append)")

if violations:
    print(f"\nC15 VIOLATED in {violations} (indicator, schedule) combinations")
    sys.exit(1)
print("\nC15 held")
sys.exit(0)
