"""C08 (lifespan setting; also the first clause of C15 for a Hexital's timeframes): with
candles_lifespan set on a Hexital and the base candles given at construction, a timeframe member
is collapsed from the ALREADY TRIMMED base candles.  Its oldest retained bucket is built from
only part of its candles (wrong open/high/low/volume) or is missing altogether, whereas the
standalone indicator with the same timeframe + lifespan collapses first and trims afterwards.

Public API only.  Exit 1 on violation.
"""
import sys
from datetime import datetime, timedelta

from hexital import Candle, Hexital
from hexital.indicators import SMA

T0 = datetime(2023, 5, 1, 9, 0, 30)


def candles():
    out = []
    for i in range(120):          # one candle per minute 09:00:30 .. 10:59:30, rising prices
        p = 100.0 + i
        out.append(Candle(p, p + 2, p - 1, p + 1, 10, timestamp=T0 + timedelta(minutes=i)))
    return out


LIFE = timedelta(minutes=90)


def rows(cs, name):
    return [(c.timestamp.strftime("%H:%M"), c.open, c.high, c.low, c.close, c.volume, c.indicators.get(name)) for c in cs]


hx = Hexital("h", candles(), [SMA(period=2, input_value="low", timeframe="T30")], candles_lifespan=LIFE)
hx.calculate()
twin = SMA(period=2, input_value="low", timeframe="T30", candles_lifespan=LIFE, candles=candles())
twin.calculate()
name = twin.name

a = rows(hx.indicator(name).candles, name)
t = rows(twin.candles, name)

# independent expectation: T30 buckets (k*30, (k+1)*30] labelled with their end, newest 11:00,
# retained = label >= 11:00 - 90 min = 09:30
print("expected retained T30 labels: 09:30 10:00 10:30 11:00; bucket 09:30 = candles 09:00:30..09:29:30 -> open 100, high 131, low 99, close 130, volume 300")
print("Hexital member :", a)
print("standalone twin:", t)
if a != t:
    print("\nC08 VIOLATED: Hexital member (lifespan, candles at construction) differs from its standalone twin")
    sys.exit(1)
print("\nC08 held")
sys.exit(0)
