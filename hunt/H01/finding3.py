"""C08: a Hexital with its own timeframe and timeframe_fill=True gives a coarser-timeframe member
different candles depending on whether the base candles are supplied at construction or appended,
and the construction result differs from the standalone twin.

At construction the member's T5 candles are built from the Hexital's already collapsed AND
gap-filled T1 candles, so the synthetic flat zero-volume fill candles are resampled as if they
were data: the T5 bucket after a gap opens at the previous close and its high/low is stretched to
include that price.  Through append() the member receives the raw candles and is correct.

Public API only.  Exit 1 on violation.
"""
import sys
from datetime import datetime

from hexital import Candle, Hexital
from hexital.indicators import SMA

ROWS = [
    ("10:00:30", 100.0, 101.0, 99.0, 100.0, 10),
    ("10:07:30", 120.0, 125.0, 118.0, 124.0, 7),     # T1 buckets 10:02 .. 10:07 are missing
    ("10:08:30", 124.0, 126.0, 123.0, 125.0, 5),
    ("10:12:30", 125.0, 127.0, 121.0, 122.0, 4),
]


def candles():
    return [Candle(o, h, l, c, v, timestamp=datetime.fromisoformat("2023-05-01T" + t)) for t, o, h, l, c, v in ROWS]


def rows(cs, name):
    return [(c.timestamp.strftime("%H:%M"), c.open, c.high, c.low, c.close, c.volume, c.indicators.get(name)) for c in cs]


# 1. Hexital, candles at construction
hx_a = Hexital("at construction", candles(), [SMA(period=2, input_value="low", timeframe="T5")], timeframe="T1", timeframe_fill=True)
hx_a.calculate()
# 2. Hexital, same candles appended
hx_b = Hexital("appended", [], [SMA(period=2, input_value="low", timeframe="T5")], timeframe="T1", timeframe_fill=True)
hx_b.append(candles())
# 3. standalone twin with the same effective configuration
twin = SMA(period=2, input_value="low", timeframe="T5", timeframe_fill=True, candles=candles())
twin.calculate()

name = twin.name
a = rows(hx_a.indicator(name).candles, name)
b = rows(hx_b.indicator(name).candles, name)
t = rows(twin.candles, name)
print("T5 candles of member", name)
print("bucket | Hexital(candles at construction)        | Hexital(append)                         | standalone twin")
for x, y, z in zip(a, b, t):
    f = lambda r: f"o={r[1]:<6} h={r[2]:<6} l={r[3]:<6} c={r[4]:<6} v={r[5]:<3} SMA={r[6]!s:<8}"
    print(x[0], "|", f(x), "|", f(y), "|", f(z), "" if x == y == z else "  <-- differs")

ok = a == b == t
print()
if not ok:
    print("C08 VIOLATED: member differs from its standalone twin / depends on how the base candles were supplied")
    sys.exit(1)
print("C08 held")
sys.exit(0)
