"""C01 (also C11 / C12): with candlestick_type="HA" + a collapsing timeframe + timeframe_fill=True
the result depends on the append schedule.

Batch: gaps are filled with flat candles at the previous bucket's RAW close, then everything is
Heikin-Ashi converted.  Incremental: when the candle after the gap arrives, the previous bucket
has already been converted, so the fill candles are flat at its HEIKIN-ASHI close (and are then
converted again).  Candles and every reading after the first gap differ.

Public API only.  Exit 1 when incremental != batch.
"""
import sys
from datetime import datetime

from hexital import Candle
from hexital.indicators import EMA

ROWS = [  # (time, open, high, low, close, volume) - well formed, increasing timestamps, one 3-bucket gap
    ("10:00:30", 100.0, 104.0, 99.0, 103.0, 10),
    ("10:01:30", 103.0, 108.0, 102.0, 107.0, 12),
    ("10:05:30", 107.0, 109.0, 101.0, 102.0, 9),   # buckets 10:03, 10:04, 10:05 are missing -> filled
    ("10:06:30", 102.0, 103.0, 98.0, 99.0, 11),
]


def candles():
    return [Candle(o, h, l, c, v, timestamp=datetime.fromisoformat("2023-05-01T" + t)) for t, o, h, l, c, v in ROWS]


def make(**kw):
    return EMA(period=2, timeframe="T1", timeframe_fill=True, candlestick_type="HA", **kw)


batch = make(candles=candles())
batch.calculate()

inc = make()
for c in candles():
    inc.append(c)          # one candle at a time


def rows(ind):
    return [(c.timestamp.strftime("%H:%M"), c.open, c.high, c.low, c.close, c.volume, c.indicators.get(ind.name)) for c in ind.candles]


a, b = rows(batch), rows(inc)
print("bucket  batch (calculate once)                         | incremental (append one by one)")
for x, y in zip(a, b):
    flag = "" if x == y else "   <-- differs"
    print(f"{x[0]}   o={x[1]:<9} h={x[2]:<9} l={x[3]:<9} c={x[4]:<9} v={x[5]:<3} EMA={x[6]!s:<9}| "
          f"o={y[1]:<9} h={y[2]:<9} l={y[3]:<9} c={y[4]:<9} v={y[5]:<3} EMA={y[6]!s:<9}{flag}")

# what the fill candle should be made of: the RAW close of the previous bucket (107.0)
fill_inc = inc.candles[2]
print("\nraw values kept for the first fill candle (incremental):", {k: fill_inc.clean_values.get(k) for k in ("open", "high", "low", "close", "volume")})
print("raw values kept for the first fill candle (batch)      :", {k: batch.candles[2].clean_values.get(k) for k in ("open", "high", "low", "close", "volume")})
print("raw close of the bucket before the gap                 : 107.0")

if a != b:
    print("\nC01 VIOLATED: incremental appends do not give the batch result")
    sys.exit(1)
print("\nC01 held")
sys.exit(0)
