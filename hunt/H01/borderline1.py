"""BORDERLINE (C15, second clause): SMA / StandardDeviation / BBANDS need period+1 retained candles.

The textbook SMA(5) of a candle needs that candle and the 4 before it (C04: "window formulas over
the last `period` inputs").  With a lifespan that keeps exactly 5 candles, the library's SMA does
not fail or return None: it silently freezes (its incremental update reads index-period = -1, i.e.
wraps around to the newest candle), and StandardDeviation turns into None for good.
Whether this is inside C15 depends on whether SMA's "look-back" is `period` candles (definition)
or period+1 (implementation).  Exit 1 when trimmed != untrimmed.
"""
import sys
from datetime import datetime, timedelta

from hexital import Candle
from hexital.indicators import SMA, WMA, StandardDeviation

T0 = datetime(2023, 5, 1, 10, 0)
P = 5


def candle(i):
    p = 100.0 + (i * 7) % 11 + i
    return Candle(p, p + 2, p - 1, p + 1, 10, timestamp=T0 + timedelta(minutes=i))


bad = False
for cls in (WMA, SMA, StandardDeviation):
    plain = cls(period=P)
    trim = cls(period=P, candles_lifespan=timedelta(minutes=P - 1))     # keeps exactly P candles
    for i in range(14):
        plain.append(candle(i))
        trim.append(candle(i))
    assert len(trim.candles) == P
    a, b = plain.as_list()[-P:], trim.as_list()
    print(f"{cls.__name__}({P}) untrimmed last {P}: {a}")
    print(f"{cls.__name__}({P}) window of {P}    : {b}   {'same' if a == b else '<-- differs'}")
    bad |= a != b
sys.exit(1 if bad else 0)
