"""BORDERLINE (C09): ROC(input_value="volume") raises ZeroDivisionError on a zero-volume candle,
including the zero-volume candles that timeframe_fill itself inserts.
(volume is not a *price* field, hence borderline.)  Exit 1 when it raises.
"""
import sys
from datetime import datetime, timedelta

from hexital import Candle
from hexital.indicators import ROC

T0 = datetime(2023, 5, 1, 10, 0, 30)
cs = [Candle(100 + i, 102 + i, 99 + i, 101 + i, 10, timestamp=T0 + timedelta(minutes=m)) for i, m in enumerate([0, 1, 5, 6, 7, 8])]
roc = ROC(period=2, input_value="volume", timeframe="T1", timeframe_fill=True, candles=cs)
try:
    roc.calculate()
except ZeroDivisionError as e:
    print("ROC on volume over gap-filled candles raised ZeroDivisionError:", e)
    sys.exit(1)
print(roc.as_list())
