"""C08 / C09 / C14 (never raises): a Hexital with its own timeframe (T5) holding a member on a
FINER timeframe (T1), base candles given at construction, then one more candle appended.

The member's T1 candles are built from the Hexital's already collapsed T5 candles (so they are
T5 buckets with T5 end labels, not T1 buckets), and the very next append() of a perfectly ordered
candle raises InvalidCandleOrder because the raw candle is older than that T5 label.
The standalone twin EMA(timeframe="T1") handles the same stream without trouble.

Public API only.  Exit 1 on violation.
"""
import sys
from datetime import datetime, timedelta

from hexital import Candle, Hexital
from hexital.indicators import EMA

T0 = datetime(2023, 5, 1, 10, 0, 30)


def candle(i):
    p = 100.0 + i
    return Candle(p, p + 2, p - 1, p + 1, 10, timestamp=T0 + timedelta(seconds=30 * i))   # every 30 s


PRE, MORE = 7, 3      # 7 candles at construction (10:00:30 .. 10:03:30), then 3 appended one by one

twin = EMA(period=2, timeframe="T1", candles=[candle(i) for i in range(PRE)])
twin.calculate()
hx = Hexital("h", [candle(i) for i in range(PRE)], [EMA(period=2, timeframe="T1")], timeframe="T5")
hx.calculate()
name = twin.name


def rows(cs):
    return [(c.timestamp.strftime("%H:%M"), c.open, c.high, c.low, c.close, c.volume, c.indicators.get(name)) for c in cs]


bad = False
print("after construction")
print("  Hexital member T1 candles :", rows(hx.indicator(name).candles))
print("  standalone twin T1 candles:", rows(twin.candles))
if rows(hx.indicator(name).candles) != rows(twin.candles):
    bad = True
    print("  -> differ")

for i in range(PRE, PRE + MORE):
    twin.append(candle(i))
    try:
        hx.append(candle(i))
    except Exception as exc:  # noqa
        bad = True
        print(f"append of candle {candle(i).timestamp} raised {type(exc).__name__}: {str(exc)[:150]}...")
        break

if bad:
    print("\nVIOLATED: member differs from standalone twin and a well-formed append raises")
    sys.exit(1)
print("\nheld")
sys.exit(0)
