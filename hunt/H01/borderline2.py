"""BORDERLINE (C01 / C08 at Hexital level): a reader registered BEFORE the indicator it reads.
Batch: the reader is calculated over all candles before its input exists -> all None.
Incremental: at every append the reader sees the input on the OLDER candles -> values.
(Registering the input first makes both agree.)  Exit 1 when incremental != batch.
"""
import sys
from datetime import datetime, timedelta
from hexital import Candle, Hexital
from hexital.indicators import EMA, Amorph
from hexital.analysis import movement
def cs(n):
    out=[]
    for i in range(n):
        p = 100 + (i*7)%11
        out.append(Candle(p, p+2, p-1, p+1, 10, timestamp=datetime(2023,5,1,10,0)+timedelta(minutes=i)))
    return out
def inds():
    return [Amorph(analysis=movement.highest, args={"indicator":"EMA_3","length":3}), EMA(period=3)]
b = Hexital("b", cs(12), inds()); b.calculate()
i = Hexital("i", [], inds())
for c in cs(12): i.append(c)
print(b.reading_as_list("highest_3"))
print(i.reading_as_list("highest_3"))

sys.exit(1 if b.reading_as_list("highest_3") != i.reading_as_list("highest_3") else 0)
