"""C20 - after calculate_index() on an earlier candle (recomputing an index that already holds a
reading, C14), Indicator.reading()/prev_reading() keep following the calculation cursor, while
Hexital.reading()/prev_reading(), has_reading, as_list and the candles address the latest candle.
A further calculate() does not repair it.
"""
import sys
from datetime import datetime, timedelta

from hexital import EMA, Candle, Hexital

t0 = datetime(2024, 1, 1, 10, 0)
candles = [
    Candle(10 + i, 11 + i, 9 + i, 10.5 + i, 100, timestamp=t0 + timedelta(minutes=i))
    for i in range(8)
]
hx = Hexital("demo", candles, [EMA(period=3)])
hx.calculate()
ind = hx.indicator("EMA_3")
before = ind.as_list()

hx.calculate_index("EMA_3", 3)  # recompute candle 3: same value, readings unchanged
hx.calculate()
assert ind.as_list() == before

direct = [c.indicators.get("EMA_3") for c in hx.candles()]
print("readings                   ", direct)
print("Hexital.reading            ", hx.reading("EMA_3"))
print("Hexital.prev_reading       ", hx.prev_reading("EMA_3"))
print("Indicator.reading(index=-1)", ind.reading(index=-1))
print("Indicator.has_reading      ", ind.has_reading)
print("Indicator.reading()        ", ind.reading())
print("Indicator.prev_reading()   ", ind.prev_reading())

ok = (
    ind.reading() == hx.reading("EMA_3") == direct[-1]
    and ind.prev_reading() == hx.prev_reading("EMA_3") == direct[-2]
)
print("PROPERTY HELD" if ok else "VIOLATION: Indicator.reading()/prev_reading() answer for candle 3/2, not the latest")
sys.exit(0 if ok else 1)
