"""C20 - Indicator.reading()/prev_reading() disagree with Hexital.reading()/prev_reading(),
has_reading, as_list and the candles after an indicator is (re-)registered on candles that
already carry its readings: the object's calculation cursor stays at 0 because calculate()
finds nothing to compute and never moves it.

Only public API: Hexital(...), calculate(), indicator(), settings, add_indicator(), reading(), ...
"""
import sys
from datetime import datetime, timedelta

from hexital import EMA, Candle, Hexital

t0 = datetime(2024, 1, 1, 10, 0)
candles = [
    Candle(10 + i, 11 + i, 9 + i, 10.5 + i, 100, timestamp=t0 + timedelta(minutes=i))
    for i in range(8)
]

hx = Hexital("demo", candles, [EMA(period=3)])
hx.calculate()
print("first registration :", hx.reading("EMA_3"), hx.indicator("EMA_3").reading())

# round-trip the indicator through its own settings (C08 registration form); same happens with
# hx.add_indicator(EMA(period=3)) or with a new Hexital built on the already computed candles
hx.add_indicator(hx.indicator("EMA_3").settings)
hx.calculate()

ind = hx.indicator("EMA_3")
direct = [c.indicators.get("EMA_3") for c in hx.candles()]
obs = {
    "direct candle[-1]": direct[-1],
    "direct candle[-2]": direct[-2],
    "Hexital.reading": hx.reading("EMA_3"),
    "Hexital.prev_reading": hx.prev_reading("EMA_3"),
    "Indicator.as_list[-1]": ind.as_list()[-1],
    "Indicator.reading(index=-1)": ind.reading(index=-1),
    "Indicator.has_reading": ind.has_reading,
    "Indicator.reading()": ind.reading(),
    "Indicator.prev_reading()": ind.prev_reading(),
}
for k, v in obs.items():
    print(f"{k:30s} {v}")

ok = (
    ind.reading() == hx.reading("EMA_3") == direct[-1]
    and ind.prev_reading() == hx.prev_reading("EMA_3") == direct[-2]
    and ind.has_reading == (ind.reading() is not None)
)
print("PROPERTY HELD" if ok else "VIOLATION: Indicator.reading()/prev_reading() do not address the latest candle")
sys.exit(0 if ok else 1)
