"""C08 (also C03/C01 inside a Hexital) - a member indicator whose own timeframe is not a multiple of
the Hexital-level timeframe is built from the ALREADY COLLAPSED base candles for everything supplied
at construction, but from the raw candles for everything appended.  So the member differs from its
standalone twin, depends on how the base candles were supplied, and for a finer member timeframe the
next append raises InvalidCandleOrder.
"""
import sys
from datetime import datetime, timedelta

from hexital import SMA, Candle, Hexital

t0 = datetime(2024, 1, 1, 10, 0, 30)


def stream(n):
    return [
        Candle(10 + i, 11 + i, 9 + i, 10.5 + i, 100, timestamp=t0 + timedelta(minutes=i))
        for i in range(n)
    ]


def snap(candles, name):
    return [
        (str(c.timestamp.time()), c.open, c.high, c.low, c.close, c.volume, c.indicators.get(name))
        for c in candles
    ]


bad = 0
n = 12

# (a) Hexital on T2, member on T5
twin = SMA(candles=stream(n), period=2, timeframe="T5")
twin.calculate()
at_construction = Hexital("a", stream(n), [SMA(period=2, timeframe="T5")], timeframe="T2")
at_construction.calculate()
by_append = Hexital("b", [], [SMA(period=2, timeframe="T5")], timeframe="T2")
by_append.append(stream(n))

s_twin = snap(twin.candles, "SMA_2_T5")
s_cons = snap(at_construction.candles("T5"), "SMA_2_T5")
s_app = snap(by_append.candles("T5"), "SMA_2_T5")
print("standalone twin        :", s_twin)
print("Hexital, at construction:", s_cons)
print("Hexital, appended       :", s_app)
if not (s_twin == s_cons == s_app):
    bad += 1
    print("-> member T5 inside a T2 Hexital differs from its standalone twin / between supply modes")

# (b) Hexital on T5, member on T1: construction + append raises
hx = Hexital("c", stream(7), [SMA(period=2, timeframe="T1")], timeframe="T5")
hx.calculate()
try:
    hx.append(stream(9)[7:])
    twin = SMA(candles=stream(9), period=2, timeframe="T1")
    twin.calculate()
    if snap(twin.candles, "SMA_2_T1") != snap(hx.candles("T1"), "SMA_2_T1"):
        bad += 1
        print("-> member T1 inside a T5 Hexital differs from its standalone twin")
except Exception as exc:  # noqa
    bad += 1
    print("-> append raised", type(exc).__name__, str(exc)[:90], "...")

print("PROPERTY HELD" if not bad else "VIOLATION")
sys.exit(1 if bad else 0)
