"""C20 - the shipped movement functions `positive` / `negative` wrapped as an indicator
({"analysis": "positive"} or Amorph(analysis=movement.positive)) get the name "positive"/"negative",
which is also a property of Candle.  Every accessor resolves the name through
getattr(candle, name) first, so has_reading / reading / reading_count / as_list /
Hexital.has_reading / Hexital.reading report readings that are NOT stored on the candles:
before the first calculate() and after purge().
"""
import sys
from datetime import datetime, timedelta

from hexital import Candle, Hexital

t0 = datetime(2024, 1, 1, 10, 0)
candles = [
    Candle(10 + i, 11 + i, 9 + i, 10.5 + i, 100, timestamp=t0 + timedelta(minutes=i))
    for i in range(5)
]
hx = Hexital("demo", candles, [{"analysis": "positive"}])
ind = hx.indicator("positive")
bad = 0


def report(stage):
    global bad
    direct = [c.indicators.get("positive") for c in hx.candles()]
    trailing = 0
    for v in reversed(direct):
        if v is None:
            break
        trailing += 1
    print(f"--- {stage}")
    print("direct inspection of candles :", direct)
    print("Indicator.as_list()          :", ind.as_list())
    print("Hexital.reading_as_list()    :", hx.reading_as_list("positive"))
    print("Indicator.reading(index=-1)  :", ind.reading(index=-1))
    print("Hexital.reading()            :", hx.reading("positive"))
    print("Indicator.has_reading        :", ind.has_reading, " expected", direct[-1] is not None)
    print("Hexital.has_reading          :", hx.has_reading("positive"), " expected", direct[-1] is not None)
    print("Indicator.reading_count()    :", ind.reading_count(), " expected", trailing)
    if (
        ind.as_list() != direct
        or hx.reading_as_list("positive") != direct
        or ind.reading(index=-1) != direct[-1]
        or hx.reading("positive") != direct[-1]
        or ind.has_reading != (direct[-1] is not None)
        or hx.has_reading("positive") != (direct[-1] is not None)
        or ind.reading_count() != trailing
    ):
        bad += 1


report("registered, not yet calculated")
hx.calculate()
report("calculated")
hx.purge("positive")
report("purged")

print("PROPERTY HELD" if not bad else f"VIOLATION in {bad} of 3 stages: accessors report readings the candles do not hold")
sys.exit(1 if bad else 0)
