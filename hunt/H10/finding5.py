"""C09 - ROC divides by the input `period` candles back without guarding zero:
ROC(input_value="volume") on a stream containing a zero-volume candle (explicitly inside C09),
or ROC chained on an indicator that legitimately reads 0 (OBV), raises ZeroDivisionError.
"""
import sys
from datetime import datetime, timedelta

from hexital import OBV, ROC, Candle, Hexital

t0 = datetime(2024, 1, 1, 10, 0)
vols = [100, 120, 0, 90, 80, 70]
candles = [
    Candle(10 + i, 11 + i, 9 + i, 10.5 + i, v, timestamp=t0 + timedelta(minutes=i))
    for i, v in enumerate(vols)
]
bad = 0
try:
    roc = ROC(candles=candles, period=2, input_value="volume")
    roc.calculate()
    print("ROC(volume):", roc.as_list())
except Exception as exc:  # noqa
    bad += 1
    print("ROC(period=2, input_value='volume') with one zero-volume candle raised:", type(exc).__name__, exc)

closes = [10, 9, 10, 10, 11]
vols = [100, 100, 50, 50, 50]  # OBV: 100, 0, 50, 50, 100
candles = [
    Candle(10, 12, 8, c, v, timestamp=t0 + timedelta(minutes=i))
    for i, (c, v) in enumerate(zip(closes, vols))
]
try:
    hx = Hexital("demo", candles, [OBV(), ROC(period=2, input_value="OBV")])
    hx.calculate()
    print("OBV:", hx.reading_as_list("OBV"), "ROC:", hx.reading_as_list("ROC"))
except Exception as exc:  # noqa
    bad += 1
    print("ROC(period=2, input_value='OBV') where OBV reads 0 raised:", type(exc).__name__, exc)

print("PROPERTY HELD" if not bad else "VIOLATION: calculation is not total")
sys.exit(1 if bad else 0)
