#!/bin/sh
# Offline set-up: third-party packages the monitors use go to the git-ignored .deps/ beside the
# repository's own interpreter. Idempotent; nothing is fetched from a network.
set -e
cd "$(dirname "$0")"
if [ ! -d .deps/icontract ] || [ ! -d .deps/jsonschema ]; then
  PIP_NO_INDEX=1 /venv/bin/pip install --quiet --no-index --find-links /opt/veriftools/wheels \
      --target .deps icontract jsonschema >/dev/null 2>&1 || \
  echo "setup: offline install of icontract/jsonschema failed; built-in contract binder and schema-lite validation will be used" >&2
fi
mkdir -p evidence replays .work
/venv/bin/python -c "import sys; sys.path.insert(0,'.'); from hxv import boot; boot.boot(); print('setup ok: hexital from', boot.hexital_path())"
