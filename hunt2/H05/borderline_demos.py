"""Borderline observations (NOT claimed as violations). Prints what the library does; always exits 0.
Run:  cd /tmp/w8-H05 && /venv/bin/python borderline_demos.py
"""
from datetime import datetime, timedelta
from hexital import EMA, RSI, Candle, Hexital
from hexital.indicators import Amorph
from hexital.analysis import movement

def stream(n=12):
    t = datetime(2023, 6, 1, 9, 0)
    rows = []
    p = 100.0
    for i in range(n):
        o = p; c = p + (3 if i % 3 else -4); h = max(o, c) + 1; l = min(o, c) - 2; p = c
        rows.append(dict(open=o, high=h, low=l, close=c, volume=10 + i, timestamp=t + timedelta(minutes=i)))
    return rows

# B1 member-level candlestick_type (object / dict / settings dict) is silently replaced by the Hexital-level one
alone = EMA(period=3, candlestick_type="HA")
for d in stream(): alone.append(dict(d))
hx = Hexital("h", [], [alone.settings])          # settings say candlestick_type='HA'
for d in stream(): hx.append(dict(d))
print("B1 settings fed in        :", {k: alone.settings[k] for k in ("indicator", "period", "candlestick_type")})
print("B1 standalone (HA) reading :", alone.reading(index=-1))
print("B1 Hexital member reading  :", hx.reading("EMA_3"), " member.settings candlestick_type =", hx.indicator("EMA_3").settings.get("candlestick_type"))

# B2 settings of an Amorph wrapping movement.above / below cannot be fed back
for f in (movement.above, movement.below):
    a = Amorph(analysis=f, indicator="close", indicator_two="open")
    try:
        Hexital("h", [], [a.settings]); print("B2", f.__name__, "accepted")
    except Exception as e:
        print("B2 settings of Amorph(%s) rejected: %r" % (f.__name__, e))

# B3 calculate_index before the first calculate()
hx = Hexital("h", Candle.from_dicts(stream()), [RSI(period=3)])
try:
    hx.calculate_index("RSI_3", -1); print("B3 ok")
except Exception as e:
    print("B3 Hexital.calculate_index before calculate():", repr(e))

# B4 changelog documents candlestick_type="ha"
try:
    EMA(candlestick_type="ha"); print("B4 ok")
except Exception as e:
    print("B4 candlestick_type='ha':", repr(e))

# B5 a Candle object appended to a base-timeframe HA indicator is converted in place
c = Candle.from_dicts(stream(3))
ha = EMA(period=2, candlestick_type="HA"); plain = EMA(period=2)
for x in c:
    ha.append(x); plain.append(x)          # same objects given to both
print("B5 plain indicator sees close", [x.close for x in plain.candles], "raw closes", [d["close"] for d in stream(3)])

# B6 a member's settings inherit the Hexital timeframe, so the round trip renames it
hx = Hexital("h", [], [EMA(period=3)], timeframe="T5")
st = hx.indicator_settings
hx2 = Hexital("h2", [], st, timeframe="T5")
print("B6 names before/after settings round trip:", list(hx.indicators), list(hx2.indicators))
