"""C17 - pattern predicates do not use the window their documentation states.

Documented (hexital/analysis/patterns.py doji docstring, hexital/analysis/utils.py candle_* docstrings):
  doji      : body shorter than 10% of the average high-low range of the 10 PREVIOUS candles
  body short: body shorter than the average real body of the 10 PREVIOUS candles
  very short shadow: shorter than 10% of the average high-low range of the 10 PREVIOUS candles
  near      : <= 20% of the average high-low range of the 5 PREVIOUS candles
Implemented: every average is taken over a window that ENDS AT (includes) the candle being
classified (utils.realbody_avg / high_low_avg: "Includes Current Candle"), i.e. the candle's own
range/body replaces the oldest of the documented candles.

So a witness that meets the documented shape with a >= 2x margin is not reported, and a candle that
violates the documented doji clause 10-fold is reported.  Only public API is used.
"""
import sys
from datetime import datetime, timedelta

from hexital import Candle
from hexital.analysis import patterns
from hexital.indicators import Amorph

T0 = datetime(2024, 1, 1, 9, 0)


def build(rows, factor=1.0, shift=0.0):
    return [
        Candle(o * factor + shift, h * factor + shift, l * factor + shift, c * factor + shift, 10,
               timestamp=T0 + timedelta(minutes=i))
        for i, (o, h, l, c) in enumerate(rows)
    ]


def documented_doji(candles, i):
    """docstring of patterns.doji, verbatim: body < 10% of the mean high-low range of the 10 previous candles.
    returns (verdict, margin factor)"""
    prev = candles[i - 10:i]
    thr = 0.1 * sum(c.high - c.low for c in prev) / 10
    body = abs(candles[i].open - candles[i].close)
    return body < thr, (thr / body if body < thr else body / thr)


failures = 0

# ---- (a) doji witness that is NOT reported -----------------------------------------------------
# history of exactly 10 well-formed candles: the oldest one has a wide range (100), the other nine
# a range of 1.  Then a candle with body 0.5 and no shadows.
hist = [(100.0, 150.0, 50.0, 100.5)] + [(100.0, 100.75, 99.75, 100.5)] * 9
witness = (100.0, 100.5, 100.0, 100.5)            # body 0.5, range 0.5
cs = build(hist + [witness])
doc, margin = documented_doji(cs, 10)
lib = patterns.doji(cs, index=10)
print(f"(a) documented threshold says doji={doc} (margin x{margin:.2f}); library doji(...)={lib}")
if doc and margin >= 2 and lib is not True:
    print("    VIOLATION: witness with 2x margin on the documented threshold is not reported")
    failures += 1
# same through the Amorph wrapper, live
am = Amorph(analysis=patterns.doji)
for c in build(hist + [witness]):
    am.append(c)
print("    Amorph(doji) column:", am.as_list())

# ---- (b) doji counter-witness that IS reported ---------------------------------------------------
# ten ordinary candles of range 1 (documented threshold = 0.1), then a candle whose body (1.0) is
# TEN times that threshold - as long as the whole average range - but which has very long shadows.
hist = [(100.0, 100.75, 99.75, 100.5)] * 10
counter = (100.0, 150.0, 51.0, 101.0)             # body 1.0, range 99
cs = build(hist + [counter])
doc, margin = documented_doji(cs, 10)
lib = patterns.doji(cs, index=10)
print(f"(b) documented threshold says doji={doc} (violated x{margin:.2f}); library doji(...)={lib}")
if (not doc) and margin >= 2 and lib is not False:
    print("    VIOLATION: candle whose body is 10x the documented doji threshold is reported as doji")
    failures += 1
for f, s in ((1000.0, 0.0), (1.0, 5000.0)):
    print(f"    scaled x{f} shifted +{s}: library doji =", patterns.doji(build(hist + [counter], f, s), index=10))

# ---- (c) hammer witness that is NOT reported -----------------------------------------------------
# documented clauses (utils docstrings): body < mean body of the 10 previous candles; lower shadow >
# body; upper shadow < 10% of the mean range of the 10 previous candles; body bottom <= previous low +
# 20% of the mean range of the 5 candles before.  History: oldest candle has a big body (40), the
# other nine have body 0.25, range 4.  Witness: body 1, lower shadow 6, no upper shadow, at the lows.
hist = [(100.0, 141.0, 99.0, 140.0)] + [(100.0, 102.0, 98.0, 100.25)] * 9
ham = (97.0, 98.0, 91.0, 98.0)                    # body 1, lower shadow 6, upper shadow 0, below previous low+near
cs = build(hist + [ham])
prev10 = cs[0:10]
body = abs(ham[0] - ham[3])
mean_body_prev = sum(abs(c.open - c.close) for c in prev10) / 10          # 4.225
mean_range_prev = sum(c.high - c.low for c in prev10) / 10                # 7.8
near = 0.2 * sum(c.high - c.low for c in cs[4:9]) / 5                     # 5 candles before candle 9
clauses = {
    "body short      ": (body, "<", mean_body_prev, mean_body_prev / body),
    "lower shadow long": (6.0, ">", body, 6.0 / body),
    "upper shadow v.short": (0.0, "<", 0.1 * mean_range_prev, float("inf")),
    "near previous low": (97.0, "<=", cs[9].low + near, None),
}
for k, v in clauses.items():
    print("   ", k, v)
doc = body < mean_body_prev and 6.0 > body and 0.0 < 0.1 * mean_range_prev and 97.0 <= cs[9].low + near
lib = patterns.hammer(cs, index=10)
print(f"(c) documented clauses say hammer={doc} (every numeric margin >= 2x); library hammer(...)={lib}")
if doc and lib is not True:
    print("    VIOLATION: hammer witness with >= 2x margin on every documented threshold is not reported")
    failures += 1

print("violations:", failures)
sys.exit(1 if failures else 0)
