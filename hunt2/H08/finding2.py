"""C17 - movement.highest / movement.lowest lose a legitimate reading of False.

highest()/lowest() document "Highest/Lowest reading in the series" over the current candle and the
`length` candles before it, with missing readings ignored.  Boolean readings are accepted as values
(_get_clean_readings keeps every float/int, and bool is an int; rising/falling/mean_* treat them as
values), and the library itself writes boolean columns (pattern/movement wrappers, STDEVT).
But both functions use `False` as their "no readings" sentinel:

    max_reading = max(readings, default=False)
    return max_reading if max_reading is not False else None

so whenever the extreme IS the reading False the answer is None - the same answer as for a window
that holds no reading at all.  lowest() of a window with at least one False is always None.
"""
import random
import sys
from datetime import datetime, timedelta

from hexital import Candle
from hexital.analysis import movement, patterns
from hexital.indicators import Amorph

rnd = random.Random(11)
t = datetime(2024, 1, 1, 9, 0)
candles = []
p = 100.0
for i in range(40):
    o = p + rnd.uniform(-2, 2)
    c = o + rnd.choice([rnd.uniform(-2, 2), rnd.uniform(-0.02, 0.02)])
    h = max(o, c) + rnd.uniform(0, 2)
    l = min(o, c) - rnd.uniform(0, 2)
    p = c
    candles.append(Candle(round(o, 2), round(h, 2), round(l, 2), round(c, 2), 10, timestamp=t + timedelta(minutes=i)))

ind = Amorph(analysis=patterns.doji, candles=candles)     # boolean column "doji" written by the library
ind.calculate()
col = ind.as_list()
print("doji column:", col)

LENGTH = 4
bad = 0
for i in range(1, len(candles)):
    window = [v for v in col[max(0, i - LENGTH): i + 1] if v is not None]   # current + LENGTH before
    exp_hi, exp_lo = max(window), min(window)
    got_hi = movement.highest(ind.candles, "doji", LENGTH, i)
    got_lo = movement.lowest(ind.candles, "doji", LENGTH, i)
    if got_hi is not exp_hi or got_lo is not exp_lo:
        bad += 1
        if bad <= 5:
            print(f"index {i}: window {window}: highest -> {got_hi!r} (expected {exp_hi!r}), lowest -> {got_lo!r} (expected {exp_lo!r})")

# the answer is indistinguishable from "no reading at all"
print("lowest over a column that does not exist:", movement.lowest(ind.candles, "nothing_here", LENGTH))
print("mismatching indices:", bad, "of", len(candles) - 1)
sys.exit(1 if bad else 0)
