"""Borderline observations for C16/C17 (not counted as findings) - prints what the library does."""
from datetime import datetime, timedelta
from hexital import Candle, MACD
from hexital.analysis import movement, patterns

t = datetime(2024, 1, 1)
cs = [Candle(10 + i, 12 + i, 9 + i, 11 + i, 5, timestamp=t + timedelta(minutes=i)) for i in range(40)]

print("B1 highestbar/lowestbar over a window with NO reading -> 0 ('the current candle is the extreme'), not None:")
print("   highestbar(cs,'nothing',4) =", movement.highestbar(cs, "nothing", 4), " highest(cs,'nothing',4) =", movement.highest(cs, "nothing", 4))

m = MACD(candles=cs); m.calculate()
print("B2 un-dotted name of a dict-valued reading: below/crossunder/rising/highest tolerate it, above/crossover/cross/highestbar raise:")
for fn, args in ((movement.below, (m.name, "close")), (movement.crossunder, (m.name, "close")), (movement.rising, (m.name,)),
                 (movement.above, (m.name, "close")), (movement.crossover, (m.name, "close")), (movement.cross, (m.name, "close")), (movement.highestbar, (m.name,))):
    try:
        print("  ", fn.__name__, "->", fn(m.candles, *args))
    except Exception as e:
        print("  ", fn.__name__, "RAISES", repr(e))

# a doji as the last candle
cs2 = [Candle(100, 101, 99, 100.5, 5, timestamp=t + timedelta(minutes=i)) for i in range(12)] + [Candle(100, 101, 99, 100.001, 5, timestamp=t + timedelta(minutes=12))]
print("B3 lookback=0 checks no candle at all: doji(lookback=None) =", patterns.doji(cs2), " doji(lookback=1) =", patterns.doji(cs2, lookback=1), " doji(lookback=0) =", patterns.doji(cs2, lookback=0))
print("B4 length=0: highest ->", movement.highest(cs, "close", 0), "(False, not the current reading / None); rising ->", movement.rising(cs, "close", 0))
