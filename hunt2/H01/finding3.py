"""C04: moving averages over "another indicator's reading" that has natural gaps.

Supertrend publishes `long` only while the trend is up and `short` only while it is down, so
`Supertrend_3.long` is a shipped reading that is None for the candles of every down-swing - nobody
punches holes into it.  Used as `input_value` of the moving averages:

  * SMA / EMA decide "do I have a full window?" with Indicator.reading_period, which only probes
    three candles (oldest, middle, newest - hexital/utils/candles.py reading_period), and then
    candles_sum() silently skips the None inputs but still divides by `period`.  With period=6 the
    window [104.5, None, None, 97.61, 102.74, 105.16] is accepted and "averaged" to 68.34:
      - a reading appears although no `period` consecutive inputs exist (first-reading clause),
      - the reading is far below the smallest input it averages (range clause),
      - EMA seeds itself from that bogus mean and then stays below every input it has ever seen.
  * WMA / RMA / HMA raise TypeError on the same input (None * int) - calculation is not total (C09).

Only the public API is used (a Hexital holding Supertrend and the moving average, batch calculate;
appending candle by candle gives the same).  Exit 0 = property held, 1 = violated.
"""
import sys
from datetime import datetime, timedelta

from hexital import EMA, HMA, RMA, SMA, WMA, Candle, Hexital, Supertrend

PERIOD = 6
CLOSES = [100, 101, 102, 103, 104, 105, 106, 107, 100, 99, 106, 108, 110, 112, 114, 116]  # one 2-candle dip
t0 = datetime(2024, 1, 2, 9, 0)
rows, prev = [], CLOSES[0]
for i, c in enumerate(CLOSES):
    rows.append(dict(open=prev, high=max(prev, c) + 0.5, low=min(prev, c) - 0.5, close=c, volume=100,
                     timestamp=t0 + timedelta(minutes=i)))
    prev = c

failed = False
INPUT = "Supertrend_3.long"
for cls in (SMA, EMA, WMA, RMA, HMA):
    hx = Hexital("demo", Candle.from_dicts(rows),
                 [Supertrend(period=3, multiplier=1.0), cls(period=PERIOD, input_value=INPUT)])
    name = f"{cls.__name__}_{PERIOD}"
    try:
        hx.calculate()
    except Exception as exc:  # C09: never raises
        print(f"{name} over {INPUT}: raised {type(exc).__name__}: {exc}")
        failed = True
        continue
    xs = hx.reading_as_list(INPUT)
    got = hx.reading_as_list(name)
    if cls is SMA:
        print("input  :", xs)
    print(f"{name:7}:", got)
    # first index at which `period` consecutive inputs exist
    full = [i for i in range(len(xs)) if i - PERIOD + 1 >= 0 and all(x is not None for x in xs[i - PERIOD + 1 : i + 1])]
    first_full = full[0] if full else None
    first_reading = next((i for i, g in enumerate(got) if g is not None), None)
    if first_reading != first_full:
        print(f"   first reading at candle {first_reading}, but the first {PERIOD} consecutive inputs only exist at candle {first_full}")
        failed = True
    for i, g in enumerate(got):
        if g is None:
            continue
        seen = [x for x in (xs[i - PERIOD + 1 : i + 1] if cls is SMA else xs[: i + 1]) if x is not None]
        if not (min(seen) - 1e-4 <= g <= max(seen) + 1e-4):
            print(f"   candle {i}: reading {g} is outside the range [{min(seen)}, {max(seen)}] of the inputs it averages")
            failed = True
            break

print("RESULT:", "C04 VIOLATED (and C09 for WMA/RMA/HMA)" if failed else "property held")
sys.exit(1 if failed else 0)
