"""C06 (TSI clause): TSI does not equal 100 * double-smoothed momentum / double-smoothed |momentum|
"within rounding error".

TSI is a dimensionless ratio, but the library stores its four helper EMA series rounded to
`round_value` decimals *in price units* (hexital/indicators/tsi.py, helpers built in _initialise,
rounded in Indicator.calculate_index via round_values) and then divides one rounded helper by the
other.  Whenever the smoothed momentum is not many orders of magnitude above 10**-round_value the
quotient is garbage:

  A. ordinary prices (~1000), default round_value, 20 moving candles followed by a run of flat
     candles (exactly what timeframe_fill inserts, or an illiquid market): by the definition TSI
     settles at 62.60 and stays there (numerator and denominator decay at the same rate); the
     library drifts to 57.1, 66.7 and then sticks at 100.0, because each rounded helper EMA gets
     trapped at 0.0001 (0.0001*0.6 rounds back to 0.0001) or drops to 0.
  B. a forex-like stream (price ~1.10, 1-minute moves ~1e-4..5e-4), default settings: readings are
     tens of points away from the definition; the same stream multiplied by 10_000 (TSI is scale
     invariant by definition) is computed correctly by the library itself.

Only the public API is used.  Exit 0 = property held, 1 = violated.
"""
import math
import random
import sys
from datetime import datetime, timedelta

from hexital import TSI, Candle

TOL = 0.01  # 100x the unit of the last stored decimal (round_value=4) - far more than "rounding error"


# ---------- independent reference (exact floats, the EMA of property C04: SMA seed, a = 2/(p+1)) ----------
def ema(xs, p):
    out, prev, a = [None] * len(xs), None, 2.0 / (p + 1)
    for i, x in enumerate(xs):
        if x is None:
            continue
        if prev is not None:
            prev = a * x + (1 - a) * prev
        elif i - p + 1 >= 0 and all(v is not None for v in xs[i - p + 1 : i + 1]):
            prev = math.fsum(xs[i - p + 1 : i + 1]) / p
        out[i] = prev
    return out


def tsi_ref(close, period, smooth):
    mom = [None] + [b - a for a, b in zip(close, close[1:])]
    num = ema(ema(mom, period), smooth)
    den = ema(ema([None if m is None else abs(m) for m in mom], period), smooth)
    return [None if d is None else (0.0 if d == 0 else 100.0 * n / d) for n, d in zip(num, den)]


def run(dicts, **kw):
    ind = TSI(candles=Candle.from_dicts(dicts), **kw)
    ind.calculate()
    return ind, ind.as_list()


def worst(got, ref):
    assert [g is None for g in got] == [r is None for r in ref], "warm-up differs"
    devs = [(abs(g - r), i) for i, (g, r) in enumerate(zip(got, ref)) if g is not None]
    return max(devs)


failed = False
t0 = datetime(2024, 1, 2, 9, 0)

# ---------------- A: mostly-rising market, then a run of flat candles, price ~1000 ----------------
MOVES = [+4, +3, -2, +5, +1, -3, +4, +2, -1, +3, +2, -2, +4, +1, +3, -1, +2, +3, -2, +4]
rows, price = [], 1000.0
for i in range(80):
    if i < len(MOVES):
        o, c = price, price + MOVES[i]
        rows.append(dict(open=o, high=max(o, c) + 0.5, low=min(o, c) - 0.5, close=c, volume=100,
                         timestamp=t0 + timedelta(minutes=i)))
        price = c
    else:  # flat, zero-volume candles: what gap filling inserts, or an illiquid stretch
        rows.append(dict(open=price, high=price, low=price, close=price, volume=0, timestamp=t0 + timedelta(minutes=i)))
ind, got = run(rows, period=4)  # smooth_period defaults to 2
ref = tsi_ref([r["close"] for r in rows], 4, ind.smooth_period)
dev, at = worst(got, ref)
print("A. 20 moving candles then 60 flat ones, price ~1000, TSI(period=4), round_value=4 (default)")
print("   library    every 3rd candle from 18:", got[18:80:3])
print("   definition every 3rd candle from 18:", [None if r is None else round(r, 4) for r in ref[18:80:3]])
print(f"   largest deviation {dev:.4f} at candle {at}  (tolerance {TOL})")
failed |= dev > TOL

# ---------------- B: forex-like stream, all defaults ----------------
rng = random.Random(11)
rows, price = [], 1.1000
for i in range(400):
    o = price
    c = round(price + rng.gauss(0, 0.0003), 5)
    h = round(max(o, c) + abs(rng.gauss(0, 0.0001)), 5)
    l = round(min(o, c) - abs(rng.gauss(0, 0.0001)), 5)
    rows.append(dict(open=o, high=h, low=l, close=c, volume=rng.randint(1, 500), timestamp=t0 + timedelta(minutes=i)))
    price = c
ind, got = run(rows)  # TSI(), period 25 / smooth 13, round_value 4
ref = tsi_ref([r["close"] for r in rows], 25, ind.smooth_period)
dev, at = worst(got, ref)
print("B. price ~1.10, moves ~3e-4, TSI() with all defaults")
print("   library    last 8:", got[-8:])
print("   definition last 8:", [round(r, 4) for r in ref[-8:]])
print(f"   largest deviation {dev:.4f} at candle {at}; distinct library readings: {len({g for g in got if g is not None})}")
failed |= dev > TOL

scaled = [{k: (v * 10000 if k in ("open", "high", "low", "close") else v) for k, v in r.items()} for r in rows]
_, got_scaled = run(scaled)
dev_s, _ = worst(got_scaled, ref)  # the reference is scale invariant
print(f"   same stream x10000: largest deviation of the library from the definition {dev_s:.4f}")
print("   -> the library's TSI depends on the unit prices are quoted in; the definition does not")

print("RESULT:", "C06 VIOLATED (TSI)" if failed else "property held")
sys.exit(1 if failed else 0)
