"""C06 (ADX clause): +DI / -DI / ADX do not equal "Wilder-smoothed directional movement over ATR,
ADX = Wilder-smoothed DX" within rounding error.

+DI, -DI and DX are dimensionless ratios, but hexital/indicators/adx.py divides helper series that
were each stored rounded to `round_value` decimals *in price units*: the ATR sub-indicator
(`ADX_p_p_atr`, itself fed by a rounded TR) and the two RMA helpers (`ADX_p_p_pos`, `ADX_p_p_neg`).
Because those helpers are recursive (new = old*(p-1)/p + x/p, then rounded) they additionally get
trapped at a non-zero value once old/p < 0.5*10**-round_value.  Consequences:

  A. ordinary prices (~1000), default round_value, 20 moving candles then a run of flat candles
     (what timeframe_fill inserts; an illiquid stretch): by the definition +DI stays 38.74 and ADX
     climbs to 94.5 and stays; the library reports +DI = 150.0 (a "percentage" of 150) and lets
     ADX collapse to 0.0003.
  B. forex-like stream (price ~1.10, moves ~3e-4), all defaults: +DI/-DI/ADX are tens of points
     off; the same stream x10000 (the definition is scale invariant) is computed correctly.

The reference below follows the library's own conventions wherever the property leaves a choice
(DM series starts with 0 at the first candle, RMA seeded by the decay-weighted mean of the first
`period` values as in property C04, ATR seeded by the mean of the first `period` true ranges as in
property C05), so the only difference is that it does not round intermediate series.

Only the public API is used.  Exit 0 = property held, 1 = violated.
"""
import math
import random
import sys
from datetime import datetime, timedelta

from hexital import ADX, Candle

TOL = 0.01  # 100x the unit of the last stored decimal (round_value=4)


def rma(xs, p):  # property C04: a = 1/p, seeded by the decay-weighted mean of the first full window
    out, prev, a = [None] * len(xs), None, 1.0 / p
    for i, x in enumerate(xs):
        if x is None:
            continue
        if prev is not None:
            prev = a * x + (1 - a) * prev
        elif i - p + 1 >= 0 and all(v is not None for v in xs[i - p + 1 : i + 1]):
            prev = math.fsum((1 - a) ** k * xs[i - k] for k in range(p)) / math.fsum((1 - a) ** k for k in range(p))
        out[i] = prev
    return out


def atr(h, l, c, p):  # property C05: Wilder-smoothed TR seeded by the mean of the first p true ranges
    tr = [None] + [max(h[i] - l[i], abs(h[i] - c[i - 1]), abs(l[i] - c[i - 1])) for i in range(1, len(h))]
    out, prev = [None] * len(h), None
    for i, x in enumerate(tr):
        if x is None:
            continue
        if prev is not None:
            prev = (prev * (p - 1) + x) / p
        elif i - p + 1 >= 1:
            prev = math.fsum(tr[i - p + 1 : i + 1]) / p
        out[i] = prev
    return out


def adx_ref(h, l, c, p):
    n = len(h)
    pos, neg = [0.0] * n, [0.0] * n
    for i in range(1, n):
        up, dn = h[i] - h[i - 1], l[i - 1] - l[i]
        pos[i] = up if up > dn and up > 0 else 0.0
        neg[i] = dn if dn > up and dn > 0 else 0.0
    a, sp, sn = atr(h, l, c, p), rma(pos, p), rma(neg, p)
    dip, din, dx = [None] * n, [None] * n, [None] * n
    for i in range(n):
        if a[i] is not None and sp[i] is not None:
            k = 100.0 / a[i] if a[i] else 0.0
            dip[i], din[i] = k * sp[i], k * sn[i]
            dx[i] = 100.0 * abs(dip[i] - din[i]) / (dip[i] + din[i]) if dip[i] + din[i] else 0.0
    return rma(dx, p), dip, din


def run(dicts, **kw):
    ind = ADX(candles=Candle.from_dicts(dicts), **kw)
    ind.calculate()
    got = ind.as_list()
    return [g["ADX"] for g in got], [g["DM_Plus"] for g in got], [g["DM_Neg"] for g in got]


def worst(got, ref):
    assert [g is None for g in got] == [r is None for r in ref], "warm-up differs"
    return max((abs(g - r), i) for i, (g, r) in enumerate(zip(got, ref)) if g is not None)


def cols(rows):
    return [r["high"] for r in rows], [r["low"] for r in rows], [r["close"] for r in rows]


failed = False
t0 = datetime(2024, 1, 2, 9, 0)

# ---------------- A: 20 moving candles, then flat candles, price ~1000 ----------------
MOVES = [+4, +3, -2, +5, +1, -3, +4, +2, -1, +3, +2, -2, +4, +1, +3, -1, +2, +3, -2, +4]
rows, price = [], 1000.0
for i in range(140):
    if i < len(MOVES):
        o, c = price, price + MOVES[i]
        rows.append(dict(open=o, high=max(o, c) + 0.5, low=min(o, c) - 0.5, close=c, volume=100,
                         timestamp=t0 + timedelta(minutes=i)))
        price = c
    else:
        rows.append(dict(open=price, high=price, low=price, close=price, volume=0, timestamp=t0 + timedelta(minutes=i)))
g_adx, g_p, g_n = run(rows, period=6)
r_adx, r_p, r_n = adx_ref(*cols(rows), 6)
print("A. 20 moving candles then flat ones, price ~1000, ADX(period=6), round_value=4 (default); every 8th candle from 18")
print("   library    +DI:", g_p[18:140:8])
print("   definition +DI:", [round(x, 4) for x in r_p[18:140:8]])
print("   library    ADX:", g_adx[18:140:8])
print("   definition ADX:", [round(x, 4) for x in r_adx[18:140:8]])
for tag, g, r in (("+DI", g_p, r_p), ("-DI", g_n, r_n), ("ADX", g_adx, r_adx)):
    dev, at = worst(g, r)
    print(f"   {tag}: largest deviation {dev:.4f} at candle {at} (tolerance {TOL}); max library value {max(x for x in g if x is not None)}")
    failed |= dev > TOL

# ---------------- B: forex-like stream, all defaults ----------------
rng = random.Random(11)
rows, price = [], 1.1000
for i in range(400):
    o = price
    c = round(price + rng.gauss(0, 0.0003), 5)
    h = round(max(o, c) + abs(rng.gauss(0, 0.0001)), 5)
    l = round(min(o, c) - abs(rng.gauss(0, 0.0001)), 5)
    rows.append(dict(open=o, high=h, low=l, close=c, volume=rng.randint(1, 500), timestamp=t0 + timedelta(minutes=i)))
    price = c
g_adx, g_p, g_n = run(rows)  # ADX() defaults: period 14, round_value 4
r_adx, r_p, r_n = adx_ref(*cols(rows), 14)
print("B. price ~1.10, moves ~3e-4, ADX() with all defaults")
print("   library    last 5 (+DI, -DI, ADX):", list(zip(g_p[-5:], g_n[-5:], g_adx[-5:])))
print("   definition last 5 (+DI, -DI, ADX):", [tuple(round(x, 4) for x in t) for t in zip(r_p[-5:], r_n[-5:], r_adx[-5:])])
for tag, g, r in (("+DI", g_p, r_p), ("-DI", g_n, r_n), ("ADX", g_adx, r_adx)):
    dev, at = worst(g, r)
    print(f"   {tag}: largest deviation {dev:.4f} at candle {at}")
    failed |= dev > TOL
scaled = [{k: (v * 10000 if k in ("open", "high", "low", "close") else v) for k, v in r.items()} for r in rows]
s_adx, s_p, s_n = run(scaled)
print("   same stream x10000: largest deviations of the library from the definition:",
      [round(worst(g, r)[0], 4) for g, r in ((s_p, r_p), (s_n, r_n), (s_adx, r_adx))])

print("RESULT:", "C06 VIOLATED (ADX / +DI / -DI)" if failed else "property held")
sys.exit(1 if failed else 0)
