"""borderline3 - C05 'within rounding error': ATR (and EMA / RMA, hence KC, Supertrend, MACD, TSI) feed their own
ROUNDED previous reading back into the recursion.  The reading then stops moving as soon as
|x - prev| / period < half a rounding unit, i.e. it keeps a permanent offset of up to (period-1)/2 rounding units
from the exact Wilder average (bounded, unlike the repaired SMA drift, but it never decays).
Exit 1 when the final reading is more than 2 rounding units away from the exact value."""
import sys
from datetime import datetime, timedelta
from hexital import ATR, Candle

t0 = datetime(2024, 1, 1)
rows = [(100, 105, 95, 100)] * 120 + [(100, 100.5, 99.5, 100)] * 3000   # TR = 10, then TR = 1.0 for 3000 candles
worst = 0
for period, rv in ((14, 4), (100, 4), (14, 2), (14, 0)):
    cs = [Candle(open=o, high=h, low=l, close=c, volume=1, timestamp=t0 + timedelta(minutes=i)) for i, (o, h, l, c) in enumerate(rows)]
    a = ATR(period=period, round_value=rv)
    a.append(cs)
    exact = 1.0 + 9.0 * ((period - 1) / period) ** 3000
    units = abs(a.reading() - exact) / 10 ** -rv
    worst = max(worst, units)
    print(f"ATR(period={period}, round_value={rv}) after 3000 candles with TR = 1.0: {a.reading()}  exact {exact:.6f}  -> off by {units:.1f} rounding units")
sys.exit(1 if worst > 2 else 0)
