"""borderline2 - C05 (rolling standard deviation) with a fine round_value: on a perfectly flat window the running
variance keeps a cancellation residue whose square root is far above the configured rounding unit
(same root cause as the recorded 'cancellation at prices >= 1e4', but visible at ordinary prices once round_value >= 6)."""
import sys
from datetime import datetime, timedelta
from hexital import Candle, StandardDeviation, BBANDS
t0 = datetime(2024, 1, 1)
worst = 0
for price in (99.99, 777.77, 4999.99):
    for rv in (4, 6, 8, 12):
        cs = [Candle(open=price, high=price, low=price, close=price, volume=1, timestamp=t0 + timedelta(minutes=i)) for i in range(60)]
        s = StandardDeviation(period=20, round_value=rv); s.append(cs)
        m = max(v for v in s.as_list() if v is not None)
        print(f"flat price {price}, round_value={rv}: max STDEV_20 = {m}  (true 0, rounding unit {10**-rv:g})")
        worst = max(worst, m / 10 ** -rv)
sys.exit(1 if worst > 1 else 0)
