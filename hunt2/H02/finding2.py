"""finding2 - C06 (ADX clause; range invariant in the spirit of C10): +DI / -DI leave [0, 100].

+DI = 100 * Wilder-smoothed(+DM) / ATR.  Candle by candle +DM <= TR (and -DM <= TR), so with the same
Wilder smoothing in numerator and denominator +DI can never exceed 100.  The library smooths +DM/-DM
with RMA, which is seeded at index period-1 by a *decay-weighted* mean of DM[0..period-1] (DM[0] = 0),
but divides by ATR, which is seeded at index `period` by the *plain* mean of TR[1..period].  The two
seeds weight the same candle differently (the newest candle of the seed window gets 1.44x the weight
for period 14), so a single directional candle near the end of the warm-up window gives +DI = 143.8.

Public API only.  Exit code 1 when the property is violated, 0 when it held.
"""
import sys
from datetime import datetime, timedelta

from hexital import ADX, Candle

P = 14
rows = [(100.0, 100.0, 100.0, 100.0)] * (P - 1) + [(100.0, 110.0, 100.0, 110.0)] + [(110.0, 110.0, 110.0, 110.0)] * 8
t0 = datetime(2024, 1, 1)
candles = [
    Candle(open=o, high=h, low=l, close=c, volume=1, timestamp=t0 + timedelta(minutes=i))
    for i, (o, h, l, c) in enumerate(rows)
]
adx = ADX(period=P)
for c in candles:            # one candle at a time, as in live use
    adx.append(c)
got = adx.as_list()

# ---------- independent reference (Wilder: same smoothing, seeded by the plain mean, for DM and TR) ----------
H = [r[1] for r in rows]; L = [r[2] for r in rows]; C = [r[3] for r in rows]
n = len(rows)
tr = [None] + [max(H[i] - L[i], abs(H[i] - C[i - 1]), abs(L[i] - C[i - 1])) for i in range(1, n)]
pdm = [None]; ndm = [None]
for i in range(1, n):
    up, dn = H[i] - H[i - 1], L[i - 1] - L[i]
    pdm.append(up if up > dn and up > 0 else 0.0)
    ndm.append(dn if dn > up and dn > 0 else 0.0)
assert all(pdm[i] <= tr[i] and ndm[i] <= tr[i] for i in range(1, n))   # DM never exceeds TR


def wilder(x):
    out = [None] * n
    out[P] = sum(x[1 : P + 1]) / P
    for i in range(P + 1, n):
        out[i] = (out[i - 1] * (P - 1) + x[i]) / P
    return out


atr, sp, sn = wilder(tr), wilder(pdm), wilder(ndm)

bad = []
print(f"ADX(period={P}); one 10-point up candle at index {P-1}, flat before and after")
print(" i | library +DI    -DI    | reference +DI   -DI")
for i, g in enumerate(got):
    if g["DM_Plus"] is None:
        continue
    rp = 100 * sp[i] / atr[i] if atr[i] else 0.0
    rn = 100 * sn[i] / atr[i] if atr[i] else 0.0
    print(f"{i:2d} | {g['DM_Plus']:10.4f} {g['DM_Neg']:8.4f} | {rp:10.4f} {rn:8.4f}")
    for k in ("DM_Plus", "DM_Neg"):
        if not (0 <= g[k] <= 100.001):
            bad.append(f"index {i}: {k} = {g[k]} is outside [0, 100] (reference {rp:.4f})")

if bad:
    print("\nVIOLATED: a directional indicator (percentage of the true range) is above 100:")
    for b in bad[:5]:
        print("  -", b)
    sys.exit(1)
print("\nproperty held")
sys.exit(0)
