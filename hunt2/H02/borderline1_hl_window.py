"""borderline1 - C05 (Highest/Lowest clause): HighestLowest(period=N) covers N+1 candles, Donchian(period=N) covers N.
Exit 1 when HighestLowest(period=N) differs from the extremes of the last N candles."""
import sys
from datetime import datetime, timedelta
from hexital import Candle, Donchian, HighestLowest

N = 3
highs = [10.0, 20.0, 11.0, 12.0, 13.0, 12.5]          # the 20 sits exactly N candles before index 4
t0 = datetime(2024, 1, 1)
mk = lambda: [Candle(open=h - 1, high=h, low=h - 2, close=h - 1, volume=1, timestamp=t0 + timedelta(minutes=i)) for i, h in enumerate(highs)]
hl = HighestLowest(period=N); hl.append(mk())
dc = Donchian(period=N); dc.append(mk())
bad = 0
for i in range(N - 1, len(highs)):
    want = max(highs[i - N + 1 : i + 1])
    got = hl.reading("HL_3.high", index=i)
    print(i, "last-%d-candles max" % N, want, "| HighestLowest(period=%d).high" % N, got, "| Donchian(period=%d).DCU" % N, dc.reading("DONCHIAN_3.DCU", index=i))
    bad += got != want
print("differences:", bad)
sys.exit(1 if bad else 0)
