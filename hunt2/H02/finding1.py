"""finding1 - C05 (Supertrend clause): the bands do NOT "only ratchet in the trend direction".

While the trend stays up (direction == +1 on two consecutive candles, i.e. no flip) the long band must
never fall; while it stays down the short band must never rise.  In the library the ratchet is only
applied in the `else:` branch of the flip test, so it is skipped on every candle whose close lies
beyond the *opposite* previous band (close > previous upper band during an up-trend, close < previous
lower band during a down-trend).  One wide candle that closes on its high therefore drops the long
stop by 10 points although the close never came near it (and symmetrically lifts the short stop).

Public API only.  Exit code 1 when the property is violated, 0 when it held.
"""
import sys
from datetime import datetime, timedelta

from hexital import Candle, Supertrend

PERIOD, MULT = 2, 2.0

# (open, high, low, close) - all well formed: finite, positive, low <= open, close <= high
UP = [
    (100.0, 101.0, 99.0, 100.0),
    (100.0, 101.0, 99.0, 100.0),
    (100.0, 101.0, 99.0, 100.0),
    (100.0, 101.0, 99.0, 100.5),   # up-trend, long band at 96
    (100.5, 106.0, 94.0, 106.0),   # wide candle closing on its high, above the previous upper band
    (106.0, 107.0, 105.0, 106.0),
]
DOWN = [
    (100.0, 101.0, 99.0, 100.0),
    (100.0, 101.0, 99.0, 100.0),
    (100.0, 101.0, 99.0, 100.0),
    (100.0, 100.5, 90.0, 90.0),    # close breaks the lower band -> down-trend
    (90.0, 91.0, 89.0, 90.0),
    (90.0, 91.0, 89.0, 90.0),
    (90.0, 91.0, 89.0, 90.0),
    (90.0, 91.0, 89.0, 89.5),      # short band has ratcheted down to ~94.5
    (89.5, 96.0, 80.0, 80.0),      # wide candle closing on its low, below the previous lower band
    (80.0, 81.0, 79.0, 80.0),
]


def reference(ohlc):
    """Textbook Supertrend computed from the raw candles only."""
    H = [c[1] for c in ohlc]
    L = [c[2] for c in ohlc]
    C = [c[3] for c in ohlc]
    n = len(C)
    tr = [None] + [max(H[i] - L[i], abs(H[i] - C[i - 1]), abs(L[i] - C[i - 1])) for i in range(1, n)]
    atr = [None] * n
    atr[PERIOD] = sum(tr[1 : PERIOD + 1]) / PERIOD      # seeded by the mean of the first `period` TRs
    for i in range(PERIOD + 1, n):
        atr[i] = (atr[i - 1] * (PERIOD - 1) + tr[i]) / PERIOD
    out = [None] * n
    fu = fl = d = None
    for i in range(n):
        if atr[i] is None:
            continue
        hl2 = (H[i] + L[i]) / 2
        bu, bl = hl2 + MULT * atr[i], hl2 - MULT * atr[i]
        if d is None:
            d, fu, fl = 1, bu, bl                          # library convention: starts in an up-trend
        else:
            if C[i] > fu:                                  # close breaks the previous upper band
                nd = 1
            elif C[i] < fl:                                # close breaks the previous lower band
                nd = -1
            else:
                nd = d
            if nd == 1 and d == 1:                         # bands only ratchet in the trend direction
                bl = max(bl, fl)
            if nd == -1 and d == -1:
                bu = min(bu, fu)
            d, fu, fl = nd, bu, bl
        out[i] = {"direction": d, "trend": fl if d == 1 else fu}
    return out


def run(label, ohlc):
    t0 = datetime(2024, 1, 1)
    candles = [
        Candle(open=o, high=h, low=l, close=c, volume=10, timestamp=t0 + timedelta(minutes=i))
        for i, (o, h, l, c) in enumerate(ohlc)
    ]
    st = Supertrend(period=PERIOD, multiplier=MULT)
    st.append(candles)
    got = st.as_list()
    ref = reference(ohlc)
    problems = []
    print(f"--- {label}: Supertrend(period={PERIOD}, multiplier={MULT})")
    print(" i    open   high    low  close | library dir/trend | reference dir/trend")
    for i, g in enumerate(got):
        r = ref[i]
        print(
            f"{i:2d}  {ohlc[i][0]:6.1f} {ohlc[i][1]:6.1f} {ohlc[i][2]:6.1f} {ohlc[i][3]:6.1f} | "
            f"{g['direction']:>3} {str(g['trend']):>10}    | "
            + (f"{r['direction']:>3} {r['trend']:10.4f}" if r else "  -")
        )
        if r and (g["direction"] != r["direction"] or abs(g["trend"] - r["trend"]) > 1e-3):
            problems.append(f"{label} index {i}: library trend {g['trend']} != reference {r['trend']:.4f}")
    # the property in its own terms: the band never moves against an unbroken trend
    for i in range(1, len(got)):
        a, b = got[i - 1], got[i]
        if a["trend"] is None:
            continue
        if a["direction"] == 1 and b["direction"] == 1 and b["long"] < a["long"] - 1e-3:
            problems.append(
                f"{label} index {i}: direction stays +1 but the long band FELL {a['long']} -> {b['long']}"
            )
        if a["direction"] == -1 and b["direction"] == -1 and b["short"] > a["short"] + 1e-3:
            problems.append(
                f"{label} index {i}: direction stays -1 but the short band ROSE {a['short']} -> {b['short']}"
            )
    return problems


problems = run("up-trend", UP) + run("down-trend", DOWN)
if problems:
    print("\nC05 VIOLATED (Supertrend bands must only ratchet in the trend direction):")
    for p in problems:
        print("  -", p)
    sys.exit(1)
print("\nproperty held")
sys.exit(0)
