"""BORDERLINE (C19 / C13 flavour) - not claimed as a finding.

On the base timeframe Indicator.append(Candle) ADOPTS the caller's Candle object
(no copy).  A candlestick conversion (Heikin-Ashi) therefore rewrites the caller's
object in place and reset_candle() wipes every reading already stored on it, so a
second, independent standalone indicator that was fed the very same Candle objects
loses readings / computes on converted prices.

exit 0 = the plain SMA is unaffected by the HA twin, exit 1 = it is affected.
"""
import sys
from datetime import datetime, timedelta

from hexital import SMA, Candle

t0 = datetime(2024, 1, 1, 9, 0)
rows = [(10, 12, 9, 11), (11, 13, 10, 12), (12, 15, 11, 14), (14, 14.5, 12, 12.5), (12.5, 13, 11, 11.5), (11.5, 14, 11, 13.5)]


def fresh():
    return [Candle(o, h, l, c, 100, t0 + timedelta(minutes=i)) for i, (o, h, l, c) in enumerate(rows)]


alone = SMA(period=3)
for c in fresh():
    alone.append(c)

shared = fresh()
plain = SMA(period=3)
ha = SMA(period=3, candlestick_type="HA", name_suffix="ha")
for c in shared:  # the same Candle objects go to both standalone indicators
    plain.append(c)
    ha.append(c)

print("SMA_3 alone               :", alone.as_list())
print("SMA_3 next to an HA twin  :", plain.as_list())
sys.exit(0 if alone.as_list() == plain.as_list() else 1)
