"""BORDERLINE (C09 flavour) - not claimed as a finding.

Prices are "finite positive" but astronomically large (>= ~1e155): the running
variance of StandardDeviation squares them, overflows to inf and inf-inf gives NaN,
which is stored as a reading (also in BBANDS).  Same family as the recorded
"running-variance cancellation at prices >= 1e4", only at an absurd scale.

exit 0 = all readings finite, exit 1 = NaN/inf stored.
"""
import math
import sys
from datetime import datetime, timedelta

from hexital import Candle, StandardDeviation

t0 = datetime(2024, 1, 1)
s = 1e160
candles = [Candle((10 + i % 3) * s, (12 + i % 3) * s, (9 + i % 3) * s, (11 + i % 3) * s, 10, t0 + timedelta(minutes=i)) for i in range(12)]
ind = StandardDeviation(period=3, candles=candles)
ind.calculate()
vals = ind.as_list()
print(vals)
sys.exit(1 if any(isinstance(v, float) and not math.isfinite(v) for v in vals) else 0)
