"""BORDERLINE (C03 / C13 / C19): a collapsing indicator built with candles=<list> consumes the caller's list.

Indicator(candles=L, timeframe=...) hands L itself to CandleManager, whose collapse_candles() pops every candle
out of L, relabels/merges the Candle objects and pushes the buckets back into L.  (append() deep-copies for a
collapsing manager, the constructor does not.)  So after building one collapsing indicator from a candle list:
  * the caller's list no longer holds the stream it held,
  * every other indicator already built on that list now sits on the collapsed candles,
  * a second collapsing indicator built from the same variable with a non-nesting timeframe resamples the
    first one's buckets instead of the stream -> wrong buckets.
Exit 1 when any of this is observed.
"""
import sys
from datetime import datetime, timedelta

sys.path.insert(0, ".")
from hexital import SMA, Candle

T0 = datetime(2024, 1, 1, 10, 0, 0)
ROWS = [(T0 + timedelta(minutes=i + 1), 100 + i, 101 + i, 99 + i, 100.5 + i, 10 + i) for i in range(15)]


def stream():
    return [Candle(o, h, l, c, v, timestamp=ts) for ts, o, h, l, c, v in ROWS]


def resample(rows, tf):
    epoch, out = datetime(1970, 1, 1), []
    for ts, o, h, l, c, v in rows:
        label = epoch + (-((epoch - ts) // tf)) * tf
        if out and out[-1][0] == label:
            b = out[-1]
            b[2], b[3], b[4], b[5] = max(b[2], h), min(b[3], l), c, b[5] + v
        else:
            out.append([label, o, h, l, c, v])
    return out


def snap(cs):
    return [[c.timestamp, c.open, c.high, c.low, c.close, c.volume] for c in cs]


bad = 0

# 1. base-timeframe indicator + collapsing indicator from the same list
candles = stream()
base = SMA(candles=candles, period=3)
base.calculate()
before = base.as_list()
t5 = SMA(candles=candles, period=3, timeframe="T5")
print("caller's list:", len(ROWS), "candles before,", len(candles), "after building SMA(timeframe='T5') from it")
print("base SMA_3 candles now:", [c.timestamp.strftime("%H:%M") for c in base.candles])
base.calculate()
if len(candles) != len(ROWS) or base.as_list() != before:
    print("-> the base indicator lost its candles/readings:", before, "->", base.as_list())
    bad = 1

# 2. two collapsing indicators, T3 then T5, from the same variable (independent twin built from a fresh copy)
candles = stream()
t3 = SMA(candles=candles, period=2, timeframe="T3")
t5 = SMA(candles=candles, period=2, timeframe="T5")
want = resample(ROWS, timedelta(minutes=5))
twin = SMA(candles=stream(), period=2, timeframe="T5")
print("T5 buckets expected  :", [(w[0].strftime("%H:%M"), w[5]) for w in want])
print("T5 from fresh stream :", [(c.timestamp.strftime("%H:%M"), c.volume) for c in twin.candles])
print("T5 after a T3 sibling:", [(c.timestamp.strftime("%H:%M"), c.volume) for c in t5.candles])
print("T3 sibling now holds :", [(c.timestamp.strftime("%H:%M"), c.volume) for c in t3.candles])
if snap(t5.candles) != want or snap(t3.candles) != resample(ROWS, timedelta(minutes=3)):
    bad = 1

print("VIOLATED" if bad else "held")
sys.exit(bad)
