"""BORDERLINE (C12 / C08): timeframe_fill=True set on a Hexital member is silently dropped.

Hexital builds the member's CandleManager with the Hexital-level fill / lifespan / candlestick type
(hexital/core/hexital.py, _validate_indicators) and the candle_manager setter then overwrites the member's own
fields, so a member configured with timeframe_fill=True (object, dict or .settings form) gets an unfilled series
unless the Hexital itself was given timeframe_fill=True.  C08 speaks of the "effective configuration", which
probably puts this outside; it is reported because C12 says "with timeframe_fill enabled" without saying where.
Exit 1 when the member's candles are not contiguous.
"""
import sys
from datetime import datetime, timedelta

sys.path.insert(0, ".")
from hexital import SMA, Hexital

T0 = datetime(2024, 1, 1, 10, 0, 0)
rows = [{"open": 10, "high": 11, "low": 9, "close": 10.5, "volume": 5, "timestamp": T0 + timedelta(minutes=m)} for m in (1, 2, 3, 21, 22, 40)]

alone = SMA(period=2, timeframe="T5", timeframe_fill=True)
alone.append(rows)
bad = 0
for form, member in (("object", SMA(period=2, timeframe="T5", timeframe_fill=True)),
                     ("dict", {"indicator": "SMA", "period": 2, "timeframe": "T5", "timeframe_fill": True}),
                     ("settings", alone.settings)):
    hx = Hexital("x", [], [member])
    hx.append(rows)
    m = hx.indicator("SMA_2_T5")
    stamps = [c.timestamp for c in m.candles]
    gaps = [b - a for a, b in zip(stamps, stamps[1:])]
    print(form, "member.timeframe_fill =", m.timeframe_fill, "| standalone:", len(alone.candles), "candles, member:", len(m.candles),
          "| steps:", sorted({str(g) for g in gaps}))
    if any(g != timedelta(minutes=5) for g in gaps):
        bad = 1
print("VIOLATED" if bad else "held")
sys.exit(bad)
