"""Borderline (C14, variant of the known 'consumer registered before its producer'):
remove_indicator + add_indicator of a PRODUCER (from its own settings) moves it behind its consumer in the
Hexital's registration order; the next append then RAISES TypeError inside the consumer instead of
converging to the batch state (C14: 'a calculate() never raises')."""
import sys
from datetime import datetime, timedelta
from hexital import Candle, Hexital

cs = [Candle(10 + i % 3, 12 + i % 3, 9 + i % 3, 11 + i % 4, 100 + i, timestamp=datetime(2023, 1, 1) + timedelta(minutes=i)) for i in range(12)]
h = Hexital("h", [], [{"indicator": "SMA", "period": 3}, {"indicator": "EMA", "period": 2, "input_value": "SMA_3", "name_suffix": "c"}])
h.append(cs[:10])
print("before:", h.reading("SMA_3"), h.reading("EMA_2_c"))
st = h.indicator("SMA_3").settings
h.remove_indicator("SMA_3")
h.add_indicator(st)
h.calculate()
print("after remove+add+calculate:", h.reading("SMA_3"), h.reading("EMA_2_c"), "order:", list(h.indicators))
try:
    h.append(cs[10])
except Exception as e:
    print("append raised:", repr(e))
    sys.exit(1)
print("append ok:", h.reading("SMA_3"), h.reading("EMA_2_c"))
