"""finding1 - an Indicator object that has been a member of a Hexital with a Hexital-level
timeframe silently keeps that timeframe (Indicator.candle_manager setter overwrites
indicator.timeframe; Hexital._validate_indicators routes members by indicator.timeframe).

Part A (C08): registered afterwards in a Hexital WITHOUT timeframe, the member (still named
              "EMA_3", built as EMA(period=3)) is computed on T5 buckets, not on the base candles
              like its standalone twin EMA(period=3).
Part B (C14, purge clause): re-registering the already registered object in the SAME Hexital moves
              it to a brand-new "T5" manager; the entries it wrote on the base candles are orphaned:
              purge()/remove_indicator() no longer remove them and an indicator that later takes
              the name inherits them instead of getting its batch readings.
Only public API is used. Exit code 1 when a violation is observed.
"""
import sys
from datetime import datetime, timedelta

from hexital import EMA, Candle, Hexital


def stream(n=40):
    t0 = datetime(2023, 6, 1, 9, 0, 0)
    out, p = [], 100.0
    for i in range(n):
        o = p
        c = round(p + ((i * 7) % 11 - 5) * 0.37, 2)
        out.append(Candle(o, max(o, c) + 0.5, min(o, c) - 0.5, c, 10 + i, timestamp=t0 + timedelta(minutes=i + 1)))
        p = c
    return out


bad = False

# ---------------------------------------------------------------- Part A (C08)
ema = EMA(period=3)  # no timeframe asked for
first = Hexital("first", [], [ema], timeframe="T5")
first.append(stream())
print("A: after membership in Hexital(timeframe='T5'): ema.timeframe =", ema.timeframe, " name =", ema.name)

second = Hexital("second", [], [ema])  # no Hexital-level timeframe at all
second.append(stream())
twin = EMA(period=3)
twin.append(stream())
member = second.indicator("EMA_3")
print("A: base candles in second Hexital:", len(second.candles()), " candles the member runs on:", len(member.candles),
      " twin candles:", len(twin.candles))
print("A: member readings[:6]:", member.as_list()[:6])
print("A: twin   readings[:6]:", twin.as_list()[:6])
if member.as_list() != twin.as_list():
    print("A: VIOLATION - member of a timeframe-less Hexital differs from standalone EMA(period=3)")
    bad = True

# ---------------------------------------------------------------- Part B (C14)
h = Hexital("x", [], [EMA(period=3)], timeframe="T5")
h.append(stream())
h.add_indicator(h.indicator("EMA_3"))  # re-register the registered object
h.calculate()
h.purge("EMA_3")
left = [c.indicators.get("EMA_3") for c in h.candles()]
print("B: after purge('EMA_3'): indicator.as_list():", h.indicator("EMA_3").as_list())
print("B: entries still on the base candles      :", left)
if any(v is not None for v in left):
    print("B: VIOLATION - purge() left entries the indicator wrote")
    bad = True

h.remove_indicator("EMA_3")
h.add_indicator(EMA(period=3, input_value="high"))  # another indicator takes the name
h.calculate()
ref = EMA(period=3, input_value="high", timeframe="T5")
ref.append(stream())
got = h.indicator("EMA_3").as_list()
print("B: new EMA(high) readings :", got)
print("B: batch EMA(high) on T5  :", ref.as_list())
if got != ref.as_list():
    print("B: VIOLATION - calculate() did not converge to the batch readings (inherited orphaned entries)")
    bad = True

sys.exit(1 if bad else 0)
