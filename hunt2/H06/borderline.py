"""Borderline observations (NOT claimed as violations) - prints what happens, always exits 0."""
from datetime import datetime, timedelta

from hexital import BBANDS, EMA, Candle, Hexital


def stream(n=40, f=1.0):
    t0 = datetime(2023, 6, 1, 9, 0, 0)
    out, p = [], 100.0
    for i in range(n):
        o = p
        c = round(p + ((i * 7) % 11 - 5) * 0.37, 2)
        out.append(Candle(o * f, (max(o, c) + 0.5) * f, (min(o, c) - 0.5) * f, c * f, 10 + i,
                          timestamp=t0 + timedelta(minutes=i + 1)))
        p = c
    return out


s = stream()

print("B1  remove_indicator(producer) while its consumer stays registered, then append:")
h = Hexital("x", [], [{"indicator": "SMA", "period": 3}, {"indicator": "EMA", "period": 3, "input_value": "SMA_3"}])
h.append(s[:10])
h.remove_indicator("SMA_3")
try:
    h.append(s[10])
    print("    no exception")
except Exception as exc:  # noqa
    print("    append -> calculate raised", repr(exc))

print("B2  add_indicator() replacing a producer under the same name (ROC omits its period) leaves the consumer stale:")
h = Hexital("x", [], [{"indicator": "ROC", "period": 3}, {"indicator": "SMA", "period": 3, "input_value": "ROC"}])
h.append(stream())
h.add_indicator({"indicator": "ROC", "period": 7})
h.calculate()
r = Hexital("r", [], [{"indicator": "ROC", "period": 7}, {"indicator": "SMA", "period": 3, "input_value": "ROC"}])
r.append(stream())
print("    live :", h.reading_as_list("SMA_3")[8:12])
print("    batch:", r.reading_as_list("SMA_3")[8:12])

print("B3  with candles_lifespan, recalculate() restarts the warm-up inside the retained window:")
e = EMA(period=3, candles_lifespan=timedelta(minutes=20))
for c in stream():
    e.append(c)
before = e.as_list()
e.recalculate()
print("    before:", before[:5])
print("    after :", e.as_list()[:5])

print("B4  read-only helper candles_sum() without a name raises on every dict-valued indicator; wrong window at the list start:")
b = BBANDS(candles=stream(), period=3)
b.calculate()
try:
    b.candles_sum(3)
except Exception as exc:  # noqa
    print("    BBANDS.candles_sum(3) raised", repr(exc))
print("    candles_sum(1,'close',index=0) =", b.candles_sum(1, "close", index=0), " (close[0] =", b.candles[0].close, ")")
print("    candles_sum(5,'close',index=2) =", b.candles_sum(5, "close", index=2), " (sum of first 3 closes =",
      sum(c.close for c in b.candles[:3]), ")")
