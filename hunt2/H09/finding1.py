"""C20 (clause: "positive and negative indices address the same candle").

Indicator.reading_period(period, name, index) - one of the documented public
read accessors - accepts a negative index as valid (utils.indexing.valid_index
allows  -len <= index < len) but then does its arithmetic on the raw negative
number, so for every negative index it answers False, although the same
candle addressed by its positive index answers True.

Exit code 0 = property held, 1 = violated.
"""
import sys
from datetime import datetime, timedelta

from hexital import EMA, Candle

t0 = datetime(2023, 6, 1, 9, 0)
candles = [
    Candle(open=100 + i, high=101 + i, low=99 + i, close=100.5 + i, volume=10 + i,
           timestamp=t0 + timedelta(minutes=i))
    for i in range(10)
]
ema = EMA(period=3, candles=candles)
ema.calculate()

n = len(ema.candles)
print("EMA_3 readings:", ema.as_list())

bad = []
for name in (None, "close"):
    for period in (1, 2, 3):
        for i in range(n):
            # the same candle through the other accessors: + and - index agree
            assert ema.reading(name, i) == ema.reading(name, i - n)
            pos = ema.reading_period(period, name, index=i)
            neg = ema.reading_period(period, name, index=i - n)
            # independent oracle: `period` consecutive readings ending at candle i
            want = i - (period - 1) >= 0 and all(
                ema.reading(name, j) is not None for j in range(i - period + 1, i + 1)
            )
            if pos != want:
                bad.append((name, period, i, "positive index", pos, want))
            if neg != want:
                bad.append((name, period, i - n, "negative index", neg, want))

for b in bad[:8]:
    print("MISMATCH name=%s period=%s index=%s (%s): reading_period=%s expected=%s" % b)
print("latest candle: reading_period(3, index=%d) = %s, reading_period(3, index=-1) = %s"
      % (n - 1, ema.reading_period(3, index=n - 1), ema.reading_period(3, index=-1)))

if bad:
    print("VIOLATED: %d mismatches (all on negative indices: %s)"
          % (len(bad), all(b[3] == "negative index" for b in bad)))
    sys.exit(1)
print("held")
sys.exit(0)
