"""BORDERLINE (C09 "never raises" / "no gaps after warm-up"; also C04).

Supertrend's own output fields `long` and `short` are None by design on every
candle where the trend points the other way (C10: "exactly one of long/short is
set").  Used as input_value of another shipped indicator inside a Hexital
(producer registered first) they are a series with natural holes - nobody
punched them.  Indicators that keep a recursive state then raise TypeError in
append(); SMA/STDEV silently average over the holes.

Exit 0 = nothing raised and no gaps, 1 = raised / gaps.
"""
import sys
from datetime import datetime, timedelta

from hexital import EMA, RSI, SMA, WMA, Candle, Hexital, Supertrend

t0 = datetime(2023, 6, 1, 9, 0)
closes = [100, 101, 102, 103, 104, 105, 100, 95, 90, 85, 80, 86, 92, 98, 104, 110, 104, 98, 92, 86]
candles = []
prev = 100
for i, c in enumerate(closes):
    candles.append(Candle(open=prev, high=max(prev, c) + 0.5, low=min(prev, c) - 0.5, close=c,
                          volume=100, timestamp=t0 + timedelta(minutes=i)))
    prev = c

status = 0
for cls in (EMA, WMA, RSI, SMA):
    cons = cls(period=3, input_value="Supertrend_3.long")
    h = Hexital("x", [], [Supertrend(period=3, multiplier=1.0), cons])
    try:
        for c in candles:
            h.append(Candle(c.open, c.high, c.low, c.close, c.volume, c.timestamp))
    except Exception as exc:  # noqa
        print(f"{cons.name:8s} append raised {exc!r} at candle {len(h.candles())}")
        status = 1
        continue
    lst = cons.as_list()
    first = next(i for i, v in enumerate(lst) if v is not None)
    gaps = [i for i, v in enumerate(lst) if v is None and i > first]
    print(f"{cons.name:8s} readings {lst}")
    if gaps:
        print(f"{cons.name:8s} gaps after first value at {gaps}")
        status = 1
print("Supertrend long :", [r["long"] for r in h.indicator("Supertrend_3").as_list()])
sys.exit(status)
