"""BORDERLINE (C20-adjacent accessor oddities; none of them is one of the
accessors C20 names, or the index/field is arguably outside its quantifier).

 a) Indicator.candles_sum(length, name, index): index 0 (and its negative twin
    -len) yields None because of `if not index_` (utils/candles.py:100), and a
    window longer than index+1 wraps to an empty slice and yields 0.
 b) Indicator.reading() on an indicator without candles raises IndexError while
    every other accessor (has_reading, prev_reading, as_list, reading_count,
    Hexital.reading) answers None/False/[]/0.
 c) A dotted name on a scalar indicator ("EMA_3.whatever") returns the scalar
    itself through every accessor, whereas the candle holds no such field.
Exit 1 if any of the oddities is observed.
"""
import sys
from datetime import datetime, timedelta

from hexital import EMA, Candle, Hexital

t0 = datetime(2023, 6, 1, 9, 0)
candles = [Candle(100 + i, 101 + i, 99 + i, 100.5 + i, 10, t0 + timedelta(minutes=i)) for i in range(6)]
ema = EMA(period=3, candles=candles)
ema.calculate()
n = len(ema.candles)
odd = 0

for i in (0, -n, 1, 2):
    got = ema.candles_sum(1, "close", i)
    want = ema.reading("close", i)
    print(f"a) candles_sum(1,'close',index={i}) = {got}   reading('close',{i}) = {want}")
    odd += got != want
got = ema.candles_sum(5, "close", 2)
print(f"a) candles_sum(5,'close',index=2) = {got}   (closes 0..2 sum to {sum(c.close for c in candles[:3])})")
odd += got != sum(c.close for c in candles[:3])

empty = EMA(period=3)
print("b) empty: has_reading", empty.has_reading, "prev_reading", empty.prev_reading(), "as_list", empty.as_list(),
      "reading_count", empty.reading_count(), "Hexital.reading", Hexital("x", [], [EMA(period=3)]).reading("EMA_3"))
try:
    print("b) empty: reading()", empty.reading())
except IndexError as exc:
    print("b) empty: reading() raised", repr(exc))
    odd += 1

h = Hexital("x", candles, [EMA(period=3, name_suffix="h")])
h.calculate()
print("c) reading('EMA_3.whatever') =", ema.reading("EMA_3.whatever"), " Hexital.has_reading('EMA_3_h.nope') =",
      h.has_reading("EMA_3_h.nope"), " candle holds:", candles[-1].indicators)
odd += ema.reading("EMA_3.whatever") is not None
sys.exit(1 if odd else 0)
