"""BORDERLINE (C19, 'append accepts Candle / dict / list with identical results').

On the base timeframe CandleManager.append() stores the caller's Candle OBJECTS by reference
(candle_manager.py: `self.candles.extend(candles_)`), while dict / list encodings are turned into
fresh objects and collapsing timeframes get a deepcopy.  A consumer with a candlestick type then
rewrites open/high/low/close of the caller's Candle objects in place, so a second consumer fed the
same Candle objects computes on converted prices.  Fed the same data as dicts, both are right.
Single-consumer use is unaffected, which is why this is filed as borderline and not as a finding.
"""
import sys
from datetime import datetime, timedelta
from hexital import EMA, Candle

rows = []
t = datetime(2023, 6, 1, 9, 0)
px = [100, 102, 101, 105, 107, 104, 108, 110]
for i, p in enumerate(px):
    rows.append({"open": p, "high": p + 2, "low": p - 2, "close": p + 1, "volume": 10, "timestamp": t + timedelta(minutes=i)})

def run(encode):
    ha = EMA(period=3, candlestick_type="HA")
    raw = EMA(period=3)
    for r in rows:
        payload = encode(r)          # ONE payload object handed to both consumers
        ha.append(payload)
        raw.append(payload)
    return raw.as_list(), [c.close for c in raw.candles]

as_dict, close_d = run(lambda r: dict(r))
as_candle, close_c = run(lambda r: Candle.from_dict(r))
print("plain EMA_3 fed dicts  :", as_dict)
print("plain EMA_3 fed Candles:", as_candle)
print("closes seen by the plain EMA (dicts)  :", close_d)
print("closes seen by the plain EMA (Candles):", close_c)
if as_dict != as_candle:
    print("DIFFERENT: the Candle encoding is shared by reference and was Heikin-Ashi converted under the plain indicator")
    sys.exit(1)
print("identical")
