"""BORDERLINE (C19 'append ... does not alter the caller's dicts and lists'; also touches C13).

Indicator(candles=lst) / Hexital(name, lst) adopt the caller's list object itself whenever it is
non-empty (candle_manager.py __init__: `if candles: self.candles = candles`).  Every later append()
therefore grows / collapses / trims the caller's list, and an empty list is NOT adopted, so the
behaviour also depends on whether the list happened to be empty.  The list altered is the one given
at construction, not the one given to append(), hence borderline.
"""
import sys
from datetime import datetime, timedelta
from hexital import EMA, Candle

t = datetime(2023, 6, 1, 9, 0)
def mk(i):
    return Candle(100 + i, 102 + i, 99 + i, 101 + i, 10, timestamp=t + timedelta(minutes=i))

bad = False
mine = [mk(i) for i in range(1, 11)]
ema = EMA(candles=mine, period=3, timeframe="T5", candles_lifespan=timedelta(minutes=5))
print("caller's list after construction: len", len(mine), "(was 10) labels", [c.timestamp.strftime("%H:%M") for c in mine])
bad |= len(mine) != 10
before = len(mine)
ema.append({"open": 1, "high": 2, "low": 0.5, "close": 1.5, "volume": 1, "timestamp": t + timedelta(minutes=31)})
print("caller's list after ema.append(dict): len", len(mine), "labels", [c.timestamp.strftime("%H:%M") for c in mine])
bad |= len(mine) != before or mine[0].timestamp != t + timedelta(minutes=5)

empty = []
ema2 = EMA(candles=empty, period=3)
ema2.append(mk(1))
print("an EMPTY caller list is not adopted: len", len(empty), "indicator has", len(ema2.candles))
sys.exit(1 if bad else 0)
