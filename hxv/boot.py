"""Path set-up: the code under test is always $VERIF_REPO (default /repo) as it is on disk now."""
import os
import sys

VERIF = os.path.dirname(os.path.dirname(os.path.abspath(__file__)))
REPO = os.path.realpath(os.environ.get("VERIF_REPO", "/repo"))
DEPS = os.path.join(VERIF, ".deps")
_booted = False


def boot():
    global _booted
    if _booted:
        return
    sys.dont_write_bytecode = True
    if REPO in sys.path:
        sys.path.remove(REPO)
    sys.path.insert(0, REPO)
    if os.path.isdir(DEPS) and DEPS not in sys.path:
        sys.path.append(DEPS)
    import hexital

    here = os.path.realpath(hexital.__file__)
    if not here.startswith(REPO + os.sep):
        print(f"INCONCLUSIVE reason=stale-import hexital={here} expected-under={REPO}")
        sys.exit(2)
    _booted = True


def hexital_path():
    import hexital

    return os.path.realpath(hexital.__file__)
