"""./check <Cxx> [--tier quick|thorough] [--seed N] [--replay FILE] [--shards N]"""
from __future__ import annotations

import argparse
import json
import os
import subprocess
import sys
import time
from concurrent.futures import ThreadPoolExecutor

from hxv import boot

boot.boot()

from hxv import evidence, findings  # noqa: E402
from hxv.core import CaseTimeout, digest, jdump, short, time_limit  # noqa: E402
from hxv.worker import load, merge_stats, new_agg, run_one  # noqa: E402

VERIF = boot.VERIF


def unset(x):
    if isinstance(x, dict):
        if set(x) == {"__set__"}:
            return set(map(lambda v: tuple(v) if isinstance(v, list) else v, x["__set__"]))
        return {k: unset(v) for k, v in x.items()}
    return x


def publish(stats):
    """Sets become counts (+ a few members) in the evidence."""
    out = {}
    for k, v in sorted(stats.items()):
        if isinstance(v, set):
            members = sorted(v, key=repr)
            out[k] = {"distinct": len(members), "members": members if len(members) <= 80 else members[:80] + ["..."]}
        elif isinstance(v, dict):
            out[k] = publish(v)
        elif isinstance(v, float):
            out[k] = round(v, 6)
        else:
            out[k] = v
    return out


def stat_get(stats, key):
    cur = stats
    for part in key.split("/"):
        if not isinstance(cur, dict) or part not in cur:
            return 0
        cur = cur[part]
    return len(cur) if isinstance(cur, set) else cur


def run_shards(prop, tier, seed, nshards, timeout):
    work = os.path.join(VERIF, ".work", f"{prop}-{tier}-{seed}-{os.getpid()}")
    os.makedirs(work, exist_ok=True)
    env = dict(os.environ, PYTHONHASHSEED="0", PYTHONDONTWRITEBYTECODE="1")
    env.setdefault("TZ", "UTC")

    def one(shard):
        out = os.path.join(work, f"{shard}.json")
        cmd = [sys.executable, "-B", "-m", "hxv.worker", prop, tier, str(seed), str(shard), str(nshards), out]
        try:
            p = subprocess.run(cmd, cwd=VERIF, env=env, timeout=timeout, capture_output=True, text=True)
        except subprocess.TimeoutExpired:
            return shard, None, "shard watchdog fired"
        if p.returncode != 0 or not os.path.exists(out):
            return shard, None, f"shard exited {p.returncode}: {p.stderr[-800:]}"
        with open(out) as f:
            data = json.load(f)
        os.remove(out)
        return shard, data, None

    par = min(nshards, int(os.environ.get("VERIF_JOBS", os.cpu_count() or 4)))
    with ThreadPoolExecutor(par) as ex:
        results = list(ex.map(one, range(nshards)))
    try:
        os.rmdir(work)
    except OSError:
        pass
    return results


def decide_and_report(mod, tier, seed, agg, dead_shards, t0, replay_path=None):
    prop = mod.ID
    known = findings.known_for(prop)
    lines, unlisted, known_seen = [], [], {}
    for sig, slot in sorted(agg["violations"].items()):
        if sig in known:
            known_seen[sig] = slot["count"]
            lines.append(f"KNOWN-FINDING: property={prop} {known[sig]} [signature={sig}, observed {slot['count']}x]")
            continue
        ex = slot["examples"][0]
        if replay_path is None:
            d = os.path.join(VERIF, "replays", prop)
            os.makedirs(d, exist_ok=True)
            path = os.path.join(d, f"{digest([sig, ex['case']])}.json")
            with open(path, "w") as f:
                f.write(jdump({"property": prop, "signature": sig, "case": ex["case"], "witness": ex["witness"], "seed": seed, "tier": tier}, indent=1))
        else:
            path = replay_path
        unlisted.append((sig, slot["count"], path, ex["witness"]))
    floors = mod.floors(tier) if hasattr(mod, "floors") else {}
    unmet = []
    n_non = len(agg["nontrivial"])
    if replay_path is None:
        for key, need in floors.items():
            got = n_non if key == "distinct_nontrivial" else stat_get(agg["stats"], key)
            if got < need:
                unmet.append(f"{key}={got}<{need}")
    incon = []
    if dead_shards:
        incon.append(f"{len(dead_shards)} shard(s) died/timed out: {short(dead_shards, 400)}")
    if agg["errors"]:
        incon.append(f"{len(agg['errors'])} harness error(s); first: {agg['errors'][0]['tb'][-600:]}")
    tl = getattr(mod, "TIMEOUTS_TOLERATED", 0)
    if len(agg["timeouts"]) > tl:
        incon.append(f"{len(agg['timeouts'])} case watchdog(s) fired; first: {short(agg['timeouts'][0], 300)}")
    if unmet:
        incon.append("coverage floors unmet: " + ", ".join(unmet))

    verdict = "violated" if unlisted else ("inconclusive" if incon else "held-on-observed")
    if replay_path is None:
        samples = agg["samples"][:3] or [{"note": "no non-trivial case"}]
        cov = {
            "evaluations": max(agg["evaluations"], 1) if agg["evaluations"] else 1,
            "distinct_nontrivial": n_non,
            "rule": mod.RULE,
            "samples": [json.loads(jdump(s)) for s in samples],
            "observed": publish(agg["stats"]),
            "verdict": verdict,
            "floors": floors,
            "inconclusive_reasons": incon,
            "case_timeouts": len(agg["timeouts"]),
            "harness_errors": len(agg["errors"]),
            "known_findings_reobserved": known_seen,
            "unlisted_violation_signatures": {s: c for s, c, _, _ in unlisted},
            "code_under_test": boot.REPO,
        }
        if agg["evaluations"] == 0:
            cov["evaluations_note"] = "0 cases ran; evaluations reported as 1 only to keep the file schema-valid"
        doc = {
            "property_id": prop, "tier": tier, "seed": seed, "level": getattr(mod, "LEVEL", "exploration"),
            "coverage": cov, "assumptions": getattr(mod, "ASSUMPTIONS", []),
            "wall_s": round(time.time() - t0, 2), "violations": sum(c for _, c, _, _ in unlisted),
        }
        if not os.environ.get("VERIF_NO_EVIDENCE"):  # mutation audit aims the checks at a scratch copy; never evidence
            evidence.write(prop, doc)
    for ln in lines:
        print(ln)
    print(f"{prop} tier={tier} seed={seed} evaluations={agg['evaluations']} distinct_nontrivial={n_non} "
          f"verdict={verdict} wall={time.time() - t0:.1f}s")
    for sig, cnt, path, wit in unlisted:
        print(f"  witness[{sig}] x{cnt}: {short(wit.get('detail', wit), 700)}")
        print(f"VIOLATION property={prop} replay={path}")
    if unlisted:
        return 1
    if incon:
        for r in incon:
            print(f"INCONCLUSIVE property={prop} reason={r}")
        return 2
    return 0


def main():
    ap = argparse.ArgumentParser()
    ap.add_argument("prop")
    ap.add_argument("--tier", default=os.environ.get("VERIF_TIER") or "quick", choices=["quick", "thorough"])
    ap.add_argument("--seed", type=int, default=int(os.environ.get("VERIF_SEED") or 0))
    ap.add_argument("--replay")
    ap.add_argument("--shards", type=int)
    a = ap.parse_args()
    mod = load(a.prop)
    t0 = time.time()
    if a.replay:
        with open(a.replay) as f:
            rp = json.load(f)
        agg = new_agg()
        res = run_one(mod, rp["case"], agg, "replay")
        if res is not None:
            print("replay result:", short({k: v for k, v in res.items() if k != "sample"}, 2000))
        sys.exit(decide_and_report(mod, rp.get("tier", a.tier), rp.get("seed", a.seed), agg, [], t0, replay_path=a.replay))
    plan = mod.plan(a.tier)
    nshards = a.shards or plan.get("shards", 16)
    results = run_shards(mod.ID, a.tier, a.seed, nshards, plan.get("shard_timeout_s", 900))
    agg = new_agg()
    dead = []
    for shard, data, err in results:
        if data is None:
            dead.append({"shard": shard, "why": err})
            continue
        agg["evaluations"] += data["evaluations"]
        agg["nontrivial"].update(data["nontrivial"])
        merge_stats(agg["stats"], unset(data["stats"]))
        for sig, slot in data["violations"].items():
            dst = agg["violations"].setdefault(sig, {"count": 0, "examples": []})
            dst["count"] += slot["count"]
            dst["examples"].extend(slot["examples"][: max(0, 4 - len(dst["examples"]))])
        agg["timeouts"].extend(data["timeouts"])
        agg["errors"].extend(data["errors"])
        if len(agg["samples"]) < 3:
            agg["samples"].extend(data["samples"][:1])
    sys.exit(decide_and_report(mod, a.tier, a.seed, agg, dead, t0))


if __name__ == "__main__":
    main()
