"""C18 child: runs in a process whose TZ was set by the parent; collapses the given streams with the
real CandleManager and prints the serialised buckets."""
import json
import signal
import sys
import time

from hxv import boot

boot.boot()

from hxv.core import rows_to_candles  # noqa: E402
from hexital.core.candle_manager import CandleManager  # noqa: E402
from hexital.indicators import HighLowAverage  # noqa: E402


class JobTimeout(Exception):
    pass


def _alarm(signum, frame):
    raise JobTimeout("job did not finish within 2 s in this zone")


def main():
    time.tzset()
    signal.signal(signal.SIGALRM, _alarm)
    jobs = json.load(sys.stdin)
    out = []
    for job in jobs:
        try:
            signal.setitimer(signal.ITIMER_REAL, 2)
            rows, tf, cut, fill = job["rows"], job["tf"], job["cut"], job.get("fill", False)
            if job.get("entry") == "indicator":
                ind = HighLowAverage(candles=rows_to_candles(rows[:cut]), timeframe=tf, timeframe_fill=fill)
                for r in rows_to_candles(rows[cut:]):
                    ind.append(r)
                cs = ind.candles
            else:
                m = CandleManager(rows_to_candles(rows[:cut]), timeframe=tf, timeframe_fill=fill)
                rest = rows_to_candles(rows[cut:])
                if rest:
                    m.append(rest)
                cs = m.candles
            out.append([[c.timestamp.isoformat(), c.open, c.high, c.low, c.close, c.volume] for c in cs])
        except Exception as e:
            out.append({"error": f"{type(e).__name__}: {e}"[:300]})
        finally:
            signal.setitimer(signal.ITIMER_REAL, 0)
    json.dump({"tzname": time.tzname, "utcoffset_now": -time.timezone, "buckets": out}, sys.stdout)


if __name__ == "__main__":
    main()
