"""C18 child: runs in a process whose TZ was set by the parent; collapses the given streams with the
real CandleManager and prints the serialised buckets."""
import json
import signal
import sys
import time

from hxv import boot

boot.boot()

from hxv.core import rows_to_candles  # noqa: E402
from hexital import Candle  # noqa: E402
from hexital.core.candle_manager import CandleManager  # noqa: E402
from hexital.indicators import HighLowAverage  # noqa: E402


class JobTimeout(Exception):
    pass


def _alarm(signum, frame):
    raise JobTimeout("job did not finish within 2 s in this zone")


def main():
    time.tzset()
    signal.signal(signal.SIGALRM, _alarm)
    jobs = json.load(sys.stdin)
    out = []
    for job in jobs:
        try:
            signal.setitimer(signal.ITIMER_REAL, 2)
            rows, tf, cut, fill = job["rows"], job["tf"], job["cut"], job.get("fill", False)
            mk = (lambda rs: [Candle(r[1], r[2], r[3], r[4], r[5], timestamp=r[0]) for r in rs]) if job.get("ts_as_str") else rows_to_candles
            if job.get("entry") == "indicator":
                ind = HighLowAverage(candles=mk(rows[:cut]), timeframe=tf, timeframe_fill=fill)
                for r in mk(rows[cut:]):
                    ind.append(r)
                cs = ind.candles
            else:
                m = CandleManager(mk(rows[:cut]), timeframe=tf, timeframe_fill=fill)
                rest = mk(rows[cut:])
                if rest:
                    m.append(rest)
                cs = m.candles
            out.append([[c.timestamp.isoformat(), c.open, c.high, c.low, c.close, c.volume] for c in cs])
        except Exception as e:
            out.append({"error": f"{type(e).__name__}: {e}"[:300]})
        finally:
            signal.setitimer(signal.ITIMER_REAL, 0)
    json.dump({"tzname": time.tzname, "utcoffset_now": -time.timezone, "buckets": out}, sys.stdout)


if __name__ == "__main__":
    main()
