"""Shared helpers: case values <-> hexital objects, the state recorder (M1), digests, case watchdog."""
from __future__ import annotations

import hashlib
import json
import math
import signal
from contextlib import contextmanager
from datetime import datetime, timedelta

from hxv import boot

boot.boot()

from hexital import Candle  # noqa: E402

EPOCH = datetime(1970, 1, 1)


# ------------------------------------------------------------------ rows <-> candles
def ts_of(x):
    return x if isinstance(x, datetime) else datetime.fromisoformat(x)


def row_to_candle(row):
    ts, o, h, l, c, v = row[:6]
    if len(row) > 6:  # 7th element: readings the caller attached to the candle before handing it over
        return Candle(o, h, l, c, v, timestamp=ts_of(ts), indicators=dict(row[6]))
    return Candle(o, h, l, c, v, timestamp=ts_of(ts))


def rows_to_candles(rows):
    return [row_to_candle(r) for r in rows]


def encode_row(row, enc):
    """The same candle data in one of the encodings append() accepts."""
    if enc == "candle":
        return row_to_candle(row)
    ts, o, h, l, c, v = row[:6]
    ts = ts_of(ts)
    if enc == "dict":
        return {"open": o, "high": h, "low": l, "close": c, "volume": v, "timestamp": ts}
    if enc == "list":
        return [o, h, l, c, v, ts]
    if enc == "Dict":
        return {"Open": o, "High": h, "Low": l, "Close": c, "Volume": v, "Timestamp": ts}
    raise ValueError(enc)


def tf_seconds(tf):
    return {"S": 1, "T": 60, "H": 3600, "D": 86400}[tf[0].upper()] * int(tf[1:])


# ------------------------------------------------------------------ state recorder (M1)
def freeze(x):
    """Hashable/JSON-able deep copy of a reading (floats kept exact via repr on dump)."""
    if isinstance(x, dict):
        return {k: freeze(v) for k, v in x.items()}
    if isinstance(x, (list, tuple)):
        return [freeze(v) for v in x]
    return x


def snap_candle(c, helpers=True):
    d = vars(c)
    out = {
        "ts": d.get("timestamp"),
        "ohlcv": (d["open"], d["high"], d["low"], d["close"], d["volume"]),
        "ind": freeze(d["indicators"]),
    }
    if helpers:
        out["sub"] = freeze(d["sub_indicators"])
        out["tag"] = d.get("_tag")
        out["clean"] = {k: v for k, v in d.get("clean_values", {}).items() if k in ("open", "high", "low", "close", "volume", "timestamp")}
    return out


def snapshot(candles, helpers=True):
    return [snap_candle(c, helpers) for c in candles]


def top_of(snap, name):
    """(ts, ohlcv, reading-of-name) per candle: what the property statements call 'the readings'."""
    return [(s["ts"], s["ohlcv"], s["ind"].get(name)) for s in snap]


def same(a, b):
    """Exact equality that treats NaN == NaN (so a NaN bug is reported by C09, not as C01 noise)."""
    if isinstance(a, float) and isinstance(b, float):
        return a == b or (math.isnan(a) and math.isnan(b))
    if isinstance(a, dict) and isinstance(b, dict):
        return a.keys() == b.keys() and all(same(a[k], b[k]) for k in a)
    if isinstance(a, (list, tuple)) and isinstance(b, (list, tuple)):
        return len(a) == len(b) and all(same(x, y) for x, y in zip(a, b))
    if type(a) is bool or type(b) is bool:
        return a is b or (a == b and type(a) is type(b))
    return a == b


def first_diff(a, b):
    """Index and both values of the first position at which two top() lists differ."""
    for i in range(min(len(a), len(b))):
        if not same(a[i], b[i]):
            return i, a[i], b[i]
    if len(a) != len(b):
        i = min(len(a), len(b))
        return i, (a[i] if i < len(a) else "<absent>"), (b[i] if i < len(b) else "<absent>")
    return None


# ------------------------------------------------------------------ json / digests
def jdefault(o):
    if isinstance(o, datetime):
        return o.isoformat()
    if isinstance(o, timedelta):
        return {"__td__": o.total_seconds()}
    if isinstance(o, (set, frozenset)):
        return sorted(o, key=repr)
    if isinstance(o, tuple):
        return list(o)
    return repr(o)


def jdump(x, **kw):
    return json.dumps(x, default=jdefault, sort_keys=True, **kw)


def digest(x):
    return hashlib.sha1(jdump(x).encode()).hexdigest()[:16]


def short(x, n=300):
    s = x if isinstance(x, str) else jdump(x)
    return s if len(s) <= n else s[: n - 3] + "..."


# ------------------------------------------------------------------ watchdog
class CaseTimeout(BaseException):
    """Raised by the per-case alarm. BaseException so that library `except Exception` cannot eat it."""


@contextmanager
def time_limit(seconds):
    def handler(signum, frame):
        raise CaseTimeout()

    old = signal.signal(signal.SIGALRM, handler)
    signal.setitimer(signal.ITIMER_REAL, seconds)
    try:
        yield
    finally:
        signal.setitimer(signal.ITIMER_REAL, 0)
        signal.signal(signal.SIGALRM, old)


def is_finite_reading(x):
    if x is None or isinstance(x, bool):
        return True
    if isinstance(x, (int, float)):
        return math.isfinite(x)
    if isinstance(x, dict):
        return all(is_finite_reading(v) for v in x.values())
    return False
