"""known_findings.json: committed, never written at run time. Keyed by mechanism signature."""
import json
import os

from hxv.boot import VERIF

PATH = os.path.join(VERIF, "known_findings.json")


def load():
    if not os.path.exists(PATH):
        return []
    with open(PATH) as f:
        return json.load(f).get("findings", [])


def known_for(prop):
    """signature -> what, for entries with status 'known' (fixed entries suppress nothing)."""
    return {f["signature"]: f.get("what", "") for f in load() if f.get("property") == prop and f.get("status") == "known"}
