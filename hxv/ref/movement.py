"""Reference predicates for C17: one-liners per docstring over an extracted reading series xs
(None = missing). Each returns a *set of admissible results* where the documentation leaves a choice."""


def present(v):
    return isinstance(v, (int, float)) and not isinstance(v, bool)


def window(xs, i, length):
    """the `length` positions before i (clipped at 0)"""
    return [v for v in xs[max(0, i - length):i] if present(v)]


def above(xs, ys, i):
    return {present(xs[i]) and present(ys[i]) and xs[i] > ys[i]}


def below(xs, ys, i):
    return {present(xs[i]) and present(ys[i]) and xs[i] < ys[i]}


def rising(xs, i, length):
    w = window(xs, i, length)
    return {bool(present(xs[i]) and w and all(xs[i] > v for v in w))}


def falling(xs, i, length):
    w = window(xs, i, length)
    return {bool(present(xs[i]) and w and all(xs[i] < v for v in w))}


def mean_rising(xs, i, length):
    w = window(xs, i, length)
    return {bool(present(xs[i]) and w and xs[i] > sum(w) / len(w))}


def mean_falling(xs, i, length):
    w = window(xs, i, length)
    return {bool(present(xs[i]) and w and xs[i] < sum(w) / len(w))}


def _incl(xs, i, size):
    """`size` positions ending at i (clipped at 0), newest first"""
    return [xs[j] for j in range(i, max(i - size, -1), -1)]


def highest(xs, i, length):
    w = [v for v in _incl(xs, i, length + 1) if present(v)]
    return {max(w) if w else None}


def lowest(xs, i, length):
    w = [v for v in _incl(xs, i, length + 1) if present(v)]
    return {min(w) if w else None}


def _bar(xs, i, size, pick):
    w = _incl(xs, i, size)
    vals = [v for v in w if present(v)]
    if not vals:
        return None
    m = pick(vals)
    return next(k for k, v in enumerate(w) if present(v) and v == m)  # most recent extreme


def highestbar(xs, i, length):
    out = {_bar(xs, i, length, max), _bar(xs, i, length + 1, max)}
    return out | ({0} if None in out else set())  # nothing present: 0 or None both say "no offset"


def lowestbar(xs, i, length):
    out = {_bar(xs, i, length, min), _bar(xs, i, length + 1, min)}
    return out | ({0} if None in out else set())


def value_range(xs, i, length):
    out = set()
    for size in (length, length + 1):
        w = [v for v in _incl(xs, i, size) if present(v)]
        out.add(abs(max(w) - min(w)) if len(w) >= 2 else None)
    return out


def _cross(xs, ys, i, length, up, strict_prev=True):
    for j in range(i, max(i - length, 0), -1):
        a, b, pa, pb = xs[j], ys[j], xs[j - 1], ys[j - 1]
        if not all(present(v) for v in (a, b, pa, pb)):
            continue
        now = a > b if up else a < b
        if strict_prev:
            before = pa < pb if up else pa > pb
        else:
            before = pa <= pb if up else pa >= pb
        if now and before:
            return True
    return False


def crossover(xs, ys, i, length):
    return {_cross(xs, ys, i, length, True)}


def crossunder(xs, ys, i, length):
    return {_cross(xs, ys, i, length, False)}


def cross(xs, ys, i, length):
    """either direction; whether 'the opposite one candle earlier' admits equality is not documented for cross: both readings admissible"""
    lo = _cross(xs, ys, i, length, True) or _cross(xs, ys, i, length, False)
    hi = _cross(xs, ys, i, length, True, False) or _cross(xs, ys, i, length, False, False)
    return {lo, hi}
