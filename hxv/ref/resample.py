"""Reference model for C03/C12/C18: right-closed, right-labelled OHLCV resampling on the naive axis."""
from __future__ import annotations

import math
from datetime import datetime, timedelta

EPOCH = datetime(1970, 1, 1)


def tf_seconds(tf):
    return {"S": 1, "T": 60, "H": 3600, "D": 86400}[tf[0].upper()] * int(tf[1:])


def label_of(ts, s):
    """bucket end on the timestamp's own wall-clock axis (naive, or aware: its own offset)"""
    ts = ts.replace(microsecond=0)
    epoch = EPOCH if ts.tzinfo is None else EPOCH.replace(tzinfo=ts.tzinfo)
    d = ts - epoch
    secs = d.days * 86400 + d.seconds
    return epoch + timedelta(seconds=math.ceil(secs / s) * s) if secs % s else ts


def resample(rows, tf, fill=False):
    """rows: iterable of (datetime, o, h, l, c, v) -> list of (label, o, h, l, c, v) tuples."""
    s = tf_seconds(tf)
    out = []
    for ts, o, h, l, c, v in rows:
        lab = label_of(ts, s)
        if out and out[-1][0] == lab:
            b = out[-1]
            b[2] = max(b[2], h)
            b[3] = min(b[3], l)
            b[4] = c
            b[5] += v
        else:
            out.append([lab, o, h, l, c, v])
    if fill:
        step = timedelta(seconds=s)
        filled = []
        for b in out:
            while filled and filled[-1][0] + step < b[0]:
                p = filled[-1]
                filled.append([p[0] + step, p[4], p[4], p[4], p[4], 0])
            filled.append(b)
        out = filled
    return [tuple(b) for b in out]
