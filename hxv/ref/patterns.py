"""Witness / counter-witness constructors for C17's pattern clauses.

A candidate candle is appended to a history of 11-25 ordinary candles. The history may change its
volatility regime (uniform / contracting / expanding), so that every averaging window the documentation
names (10 candles for body and range, 5 candles for 'near') matters. Each construction is VALIDATED by an
independent clause-by-clause evaluation with >= 2x margin under both readings of "the average of the n
previous candles" (including or excluding the candle itself); constructions that do not clear the margins
are dropped, never asserted. All prices are multiples of 1/64 (exact under *2^k and dyadic shifts).
"""
Q = 1 / 64


def q(x):
    return round(x / Q) * Q


def history(rng, n, regime, level=200.0):
    out = []
    p = level
    cut = n - rng.randint(5, 7)
    for i in range(n):
        if regime == "contracting":
            s = 10.0 if i < cut else 1.0
        elif regime == "expanding":
            s = 1.0 if i < cut else 10.0
        else:
            s = 1.0
        up = rng.random() < 0.5
        body = q(s * rng.uniform(0.9, 1.1))
        o = q(p)
        c = o + body if up else o - body
        hi = max(o, c) + q(s * rng.uniform(0.45, 0.55))
        lo = min(o, c) - q(s * rng.uniform(0.45, 0.55))
        out.append((o, hi, lo, c))
        p = c + q(s * rng.uniform(-0.2, 0.2))
        if p < 60:
            p = 200.0
    return out


def ohlc(o, c, up_sh, lo_sh):
    return (q(o), q(max(o, c) + up_sh), q(min(o, c) - lo_sh), q(c))


def body(c):
    return abs(c[0] - c[3])


def rng_(c):
    return c[1] - c[2]


def avgs(cs, i, f, length):
    """both readings of 'average of the `length` candles': ending at i, or the `length` before i"""
    a = [f(c) for c in cs[max(0, i - length + 1):i + 1]]
    b = [f(c) for c in cs[max(0, i - length):i]]
    out = [sum(a) / length]
    if len(b) == length:
        out.append(sum(b) / length)
    return min(out), max(out)


def lt(x, thr):
    """x < thr with margin, under the (lo, hi) readings of thr"""
    lo, hi = thr
    if 2 * x <= lo:
        return "T"
    if x >= 2 * hi:
        return "F"
    return "?"


def gt(x, thr):
    lo, hi = thr
    if x >= 2 * hi and x > 0:
        return "T"
    if 2 * x <= lo:
        return "F"
    return "?"


def clauses(cs, pattern):
    """independent evaluation of the documented clauses on the last candle of cs -> {clause: 'T'|'F'|'?'}"""
    i = len(cs) - 1
    c, p = cs[i], cs[i - 1]
    o, h, l, cl = c
    b = body(c)
    us, ls = h - max(o, cl), min(o, cl) - l
    aB = avgs(cs, i, body, 10)
    aR = avgs(cs, i, rng_, 10)
    tenth = (0.1 * aR[0], 0.1 * aR[1])
    if pattern == "doji":
        return {"body_not_doji": lt(b, tenth)}
    if pattern == "dojistar":
        pB = avgs(cs, i - 1, body, 10)
        pbody = body(p)
        up = p[3] > p[0]
        gap = (min(o, cl) - max(p[0], p[3])) if up else (min(p[0], p[3]) - max(o, cl))
        clear = 0.05 * aR[1]
        return {"prev_body_short": gt(pbody, pB), "body_not_doji": lt(b, tenth),
                "no_gap": "T" if (gap >= clear and p[3] != p[0]) else ("F" if gap <= -clear else "?")}
    if pattern == "hammer":
        near = avgs(cs, i - 1, rng_, 5)
        d = min(o, cl) - p[2]
        return {"body_long": lt(b, aB), "lower_shadow_short": gt(ls, (b, b)), "upper_shadow_long": lt(us, tenth),
                "not_near_low": "T" if d <= 0.5 * 0.2 * near[0] else ("F" if d >= 2 * 0.2 * near[1] else "?")}
    if pattern == "inv_hammer":
        gap = min(p[0], p[3]) - max(o, cl)
        clear = 0.05 * aR[1]
        return {"body_long": lt(b, aB), "upper_shadow_short": gt(us, (b, b)), "lower_shadow_long": lt(ls, tenth),
                "no_gap_down": "T" if gap >= clear else ("F" if gap <= -clear else "?")}
    raise ValueError(pattern)


def make(rng, pattern, variant):
    """-> (candles, expected bool) or None when the construction does not clear the margins."""
    n = rng.randint(11, 25)
    regime = rng.choice(["uniform", "uniform", "contracting", "expanding"])
    h = history(rng, n, regime)
    aB = sum(body(c) for c in h[-10:]) / 10
    aR = sum(rng_(c) for c in h[-10:]) / 10
    aR5 = sum(rng_(c) for c in h[-5:]) / 5
    po, ph, pl, pc = h[-1]
    if pattern == "doji":
        b = 0.02 * aR if variant == "witness" else 0.45 * aR
        o = q(pc)
        cs = h + [ohlc(o, o + rng.choice([-1, 1]) * b, 0.4 * aR, 0.4 * aR)]
    elif pattern == "dojistar":
        up = rng.random() < 0.5
        pbody = 3.2 * aB if variant != "prev_body_short" else 0.25 * aB
        o0 = q(h[-2][3])
        prev = ohlc(o0, o0 + pbody if up else o0 - pbody, 0.2 * aR, 0.2 * aR)
        h = h[:-1] + [prev]
        aR = sum(rng_(c) for c in h[-10:]) / 10
        gap = 0.3 * aR if variant not in ("no_gap", "gap_wrong_way") else -min(0.4 * pbody, 0.5 * aR)
        if variant == "gap_wrong_way":
            gap = -(pbody + 0.4 * aR)  # a clear gap, but on the far side of the previous body: against the previous candle's direction
        b = 0.015 * aR if variant != "body_not_doji" else 0.5 * aR
        sh = 0.3 * aR
        if up:
            o = max(prev[0], prev[3]) + gap
            cnd = ohlc(o, o + b, sh if variant != "gap_wrong_way" else 0.1 * aR, sh if variant not in ("no_gap",) else 0.1 * aR)
        else:
            o = min(prev[0], prev[3]) - gap
            cnd = ohlc(o, o - b, sh if variant not in ("no_gap",) else 0.1 * aR, sh if variant != "gap_wrong_way" else 0.1 * aR)
        cs = h + [cnd]
    elif pattern == "hammer":
        b = 0.25 * aB if variant != "body_long" else 2.6 * max(aB, 1.0)
        lo_sh = 5 * b if variant != "lower_shadow_short" else 0.3 * b
        up_sh = 0.012 * aR if variant != "upper_shadow_long" else 0.3 * aR
        bottom = pl - 0.02 * aR5 if variant != "not_near_low" else pl + 3 * 0.2 * aR5
        cs = h + [ohlc(bottom, bottom + b, up_sh, lo_sh) if rng.random() < 0.5 else ohlc(bottom + b, bottom, up_sh, lo_sh)]
    elif pattern == "inv_hammer":
        b = 0.25 * aB if variant != "body_long" else 2.6 * max(aB, 1.0)
        up_sh = 5 * b if variant != "upper_shadow_short" else 0.3 * b
        lo_sh = 0.012 * aR if variant != "lower_shadow_long" else 0.3 * aR
        top = min(po, pc) - 0.2 * aR if variant != "no_gap_down" else min(po, pc) + 0.3 * aR
        cs = h + [ohlc(top, top - b, up_sh, lo_sh) if rng.random() < 0.5 else ohlc(top - b, top, up_sh, lo_sh)]
    else:
        raise ValueError(pattern)
    if any(c[2] <= 0 or not (c[2] <= min(c[0], c[3]) and max(c[0], c[3]) <= c[1]) for c in cs):
        return None
    ev = clauses(cs, pattern)
    if variant == "witness":
        if all(v == "T" for v in ev.values()):
            return cs, True, regime
        return None
    clause = "no_gap" if variant == "gap_wrong_way" else variant
    if ev.get(clause) == "F" and all(v == "T" for k, v in ev.items() if k != clause):
        return cs, False, regime
    return None


VARIANTS = {
    "doji": ["witness", "body_not_doji"],
    "dojistar": ["witness", "prev_body_short", "body_not_doji", "no_gap", "gap_wrong_way"],
    "hammer": ["witness", "body_long", "lower_shadow_short", "upper_shadow_long", "not_near_low"],
    "inv_hammer": ["witness", "body_long", "upper_shadow_short", "lower_shadow_long", "no_gap_down"],
}
