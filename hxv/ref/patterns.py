"""Witness / counter-witness constructors for C17's pattern clauses (margins >= 2x on every threshold).

History: >= 10 'ordinary' candles with body ~= 1.0 and range ~= 2.0 (so avgBody ~= 1, avgRange ~= 2,
doji threshold 0.2, very-short shadow 0.2, near 0.4) whether or not the candle under test is included
in the averages. All prices are multiples of 1/64 (exact under *2^k and under shifts by multiples of 1/64).
"""
Q = 1 / 64


def q(x):
    return round(x / Q) * Q


def history(rng, n, level=100.0):
    out = []
    p = level
    for i in range(n):
        up = rng.random() < 0.5
        body = q(rng.uniform(0.9, 1.1))
        o = q(p)
        c = o + body if up else o - body
        hi = max(o, c) + q(rng.uniform(0.45, 0.55))
        lo = min(o, c) - q(rng.uniform(0.45, 0.55))
        out.append((o, hi, lo, c))
        p = c + q(rng.uniform(-0.2, 0.2))
        if p < 20:
            p = 60.0
    return out


def ohlc(o, c, up_sh, lo_sh):
    return (q(o), q(max(o, c) + up_sh), q(min(o, c) - lo_sh), q(c))


def make(rng, pattern, variant):
    """returns (candles as (o,h,l,c) list, expected bool). variant 'witness' or the name of the broken clause."""
    n = rng.randint(11, 25)
    h = history(rng, n)
    po, ph, pl, pc = h[-1]
    if pattern == "doji":
        body = 0.05 if variant == "witness" else 0.8
        o = q(pc)
        cnd = ohlc(o, o + rng.choice([-1, 1]) * body, 0.9, 0.9)
        return h + [cnd], variant == "witness"
    if pattern == "dojistar":
        # rebuild the previous candle: long body (3.0), direction up or down
        up = rng.random() < 0.5
        pbody = 3.0 if variant != "prev_body_short" else 0.3
        o0 = q(h[-2][3])
        c0 = o0 + pbody if up else o0 - pbody
        prev = ohlc(o0, c0, 0.5, 0.5)
        h = h[:-1] + [prev]
        gap = 0.5 if variant != "no_gap" else -min(1.0, pbody / 2)
        body = 0.03 if variant != "body_not_doji" else 0.8
        if up:
            o = max(prev[0], prev[3]) + gap
            cnd = ohlc(o, o + body, 0.8, 0.8 if variant != "no_gap" else 0.3)
        else:
            o = min(prev[0], prev[3]) - gap
            cnd = ohlc(o, o - body, 0.8 if variant != "no_gap" else 0.3, 0.8)
        return h + [cnd], variant == "witness"
    if pattern == "hammer":
        body = 0.3 if variant != "body_long" else 2.6
        lo_sh = 1.5 if variant != "lower_shadow_short" else 0.1
        if variant == "body_long":
            lo_sh = 6.0
        up_sh = 0.03 if variant != "upper_shadow_long" else 0.6
        bottom = pl - 0.1 if variant != "not_near_low" else pl + 1.2
        if rng.random() < 0.5:
            cnd = ohlc(bottom, bottom + body, up_sh, lo_sh)
        else:
            cnd = ohlc(bottom + body, bottom, up_sh, lo_sh)
        return h + [cnd], variant == "witness"
    if pattern == "inv_hammer":
        body = 0.3 if variant != "body_long" else 2.6
        up_sh = 1.5 if variant != "upper_shadow_short" else 0.1
        if variant == "body_long":
            up_sh = 6.0
        lo_sh = 0.03 if variant != "lower_shadow_long" else 0.6
        top = min(po, pc) - 0.4 if variant != "no_gap_down" else min(po, pc) + 0.5
        if rng.random() < 0.5:
            cnd = ohlc(top, top - body, up_sh, lo_sh)
        else:
            cnd = ohlc(top - body, top, up_sh, lo_sh)
        return h + [cnd], variant == "witness"
    raise ValueError(pattern)


VARIANTS = {
    "doji": ["witness", "body_not_doji"],
    "dojistar": ["witness", "prev_body_short", "body_not_doji", "no_gap"],
    "hammer": ["witness", "body_long", "lower_shadow_short", "upper_shadow_long", "not_near_low"],
    "inv_hammer": ["witness", "body_long", "upper_shadow_short", "lower_shadow_long", "no_gap_down"],
}
