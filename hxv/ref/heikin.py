"""Reference Heikin-Ashi recurrence over (ts,o,h,l,c,v) tuples."""


def heikin_ashi(base):
    out = []
    for i, (ts, o, h, l, c, v) in enumerate(base):
        C = (o + h + l + c) / 4
        O = (o + c) / 2 if i == 0 else (out[-1][1] + out[-1][4]) / 2
        out.append((ts, O, max(h, O, C), min(l, O, C), C, v))
    return out


def ema_rounded(xs, p, r=4, smoothing=2.0):
    """EMA as the property defines it, stored at r decimals each step (what 'readings on converted values' must equal)."""
    a = smoothing / (p + 1.0)
    out, prev = [], None
    for i, x in enumerate(xs):
        if prev is not None:
            prev = round(a * x + (1 - a) * prev, r)
        elif i >= p - 1:
            prev = round(sum(xs[i - p + 1:i + 1]) / p, r)
        out.append(prev)
    return out
