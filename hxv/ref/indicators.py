"""Executable reference definitions for C04-C06, written against plain lists computed from the RAW
candles only (never from Hexital's helper series). Values are Num(value, err); None = no reading yet;
ANY = the definition does not pin the value down (0/0-like quotient).

r = the indicator's own round_value; H = decimals at which a correct implementation may store the
intermediate series its definition names: the finer of 4 decimals and r, H = max(4, r) - an intermediate series stored more
coarsely than the result it feeds puts more error into that result than 'the configured rounding' accounts for.
"""
from __future__ import annotations

import math

from hxv.ref.num import ANY, EPS, Num, isnum, nmax, nmin, nsum


def rho(r):
    return 0.5 * 10 ** (-r)


def ok(x):
    return x is not None and x is not ANY


def full(xs, p, i):
    return i - p + 1 >= 0 and all(ok(xs[j]) for j in range(i - p + 1, i + 1))


def st(x, r):
    return x.st(r) if isnum(x) else x


# ------------------------------------------------------------------ moving averages
def sma(xs, p, r):
    """mean of the last p inputs, stored at r decimals: ONE rounding, however long the history (an implementation that keeps
    updating its own rounded reading drifts without bound - that is not 'the error the configured rounding can introduce')."""
    return [(nsum(Num.of(x) for x in xs[i - p + 1:i + 1]) * (1.0 / p)).st(r) if full(xs, p, i) else None for i in range(len(xs))]


def wma(xs, p, r):
    w = p * (p + 1) / 2
    return [(nsum(Num.of(xs[i - k]) * (p - k) for k in range(p)) * (1.0 / w)).st(r) if full(xs, p, i) else None for i in range(len(xs))]


def _recursive(xs, p, r, a, seed):
    out, prev = [], None
    for i, x in enumerate(xs):
        if not ok(x):
            prev = None
        elif prev is not None:
            prev = (a * Num.of(x) + (1 - a) * prev).st(r)
        elif full(xs, p, i):
            prev = seed(i).st(r)
        out.append(prev)
    return out


def ema(xs, p, r, smoothing=2.0):
    a = smoothing / (p + 1.0)
    return _recursive(xs, p, r, a, lambda i: nsum(Num.of(x) for x in xs[i - p + 1:i + 1]) * (1.0 / p))


def rma(xs, p, r):
    a = 1.0 / p
    den = sum((1 - a) ** k for k in range(p))
    return _recursive(xs, p, r, a, lambda i: nsum(((1 - a) ** k) * Num.of(xs[i - k]) for k in range(p)) * (1.0 / den))


def vwma(c, v, p, r):
    out = []
    for i in range(len(c)):
        if i - p + 1 < 0:
            out.append(None)
            continue
        sv = sum(v[i - p + 1:i + 1])
        if sv == 0:
            out.append(ANY)
        else:
            out.append((nsum(Num.of(c[j]) * v[j] for j in range(i - p + 1, i + 1)) * (1.0 / sv)).st(r))
    return out


def hma(xs, p, r, H):
    a, b = wma(xs, p // 2, H), wma(xs, p, H)
    raw = [(2 * x - y).st(H) if ok(x) and ok(y) else None for x, y in zip(a, b)]
    return [st(x, r) if ok(x) else None for x in wma(raw, int(math.sqrt(p)), H)]


# ------------------------------------------------------------------ volatility / range / channel / utility
def tr(h, l, c, r):
    return [None] + [nmax([Num.of(h[i] - l[i]), Num.of(abs(h[i] - c[i - 1])), Num.of(abs(l[i] - c[i - 1]))]).st(r) for i in range(1, len(h))]


def atr(h, l, c, p, r, H):
    t = tr(h, l, c, H)
    out, prev = [], None
    for i in range(len(t)):
        if prev is not None:
            prev = ((prev * (p - 1) + t[i]) * (1.0 / p)).st(r)
        elif full(t, p, i):
            prev = (nsum(t[i - p + 1:i + 1]) * (1.0 / p)).st(r)
        out.append(prev)
    return out


def stdev(xs, p, r):
    out = []
    seen = 0
    big = 0.0
    for i in range(len(xs)):
        if ok(xs[i]):
            seen += 1
            big = max(big, abs(Num.of(xs[i]).v))
        if full(xs, p, i):
            w = [Num.of(x) for x in xs[i - p + 1:i + 1]]
            m = nsum(w) * (1.0 / p)
            var = nsum((x - m) * (x - m) for x in w) * (1.0 / p)
            floor = 64 * EPS * max(seen, p) * big ** 2  # cancellation in a running-variance implementation remembers the largest value seen
            out.append(var.sqrt(floor).st(r))
        else:
            out.append(None)
    return out


def bbands(xs, p, r, H, k=2.0):
    m, s = sma(xs, p, H), stdev(xs, p, H)
    return [{"BBL": (a - k * b).st(r), "BBM": a.st(r), "BBU": (a + k * b).st(r)} if ok(a) and ok(b) else None for a, b in zip(m, s)]


def kc(h, l, c, xs, p, mult, r, H):
    e, a = ema(xs, p, H), atr(h, l, c, p, H, H)
    out = []
    for x, y in zip(e, a):
        d = {"band": x.st(r) if ok(x) else None, "lower": None, "upper": None}
        if ok(x) and ok(y):
            d["lower"], d["upper"] = (x - mult * y).st(r), (x + mult * y).st(r)
        out.append(d)
    return out


def donchian(h, l, p, r):
    out = []
    for i in range(len(h)):
        if i - p + 1 >= 0:
            u, d = max(h[i - p + 1:i + 1]), min(l[i - p + 1:i + 1])
            out.append({"DCL": Num.of(d).st(r), "DCM": Num.of((u + d) / 2).st(r), "DCU": Num.of(u).st(r)})
        else:
            out.append(None)
    return out


def highest_lowest(h, l, p, r):
    return [{"low": Num.of(min(l[max(0, i - p):i + 1])).st(r), "high": Num.of(max(h[max(0, i - p):i + 1])).st(r)} for i in range(len(h))]


def hla(h, l, r):
    return [Num.of((a + b) / 2).st(r) for a, b in zip(h, l)]


def counter(xs, val):
    out, n = [], 0
    for x in xs:
        if x is None:
            pass
        elif x == val:
            n += 1
        else:
            n = 0
        out.append(n)
    return out


def _hull(nums):
    """smallest Num whose 4-err interval covers the 4-err intervals of all the given ones"""
    lo = min(x.v - 4 * x.e for x in nums)
    hi = max(x.v + 4 * x.e for x in nums)
    return Num((lo + hi) / 2, (hi - lo) / 8)


class SupertrendRef:
    """Stepper: bands HL2 +- m*ATR that only ratchet in the trend direction; flip when the close breaks the
    previous band. Where a comparison is closer than the error bounds both outcomes are admissible; the reference keeps EVERY
    internal state that is consistent with what the implementation has shown (its rounded output may not reveal the choice)."""

    def __init__(self, h, l, c, p, mult, r, H):
        self.h, self.l, self.c, self.mult, self.r, self.H = h, l, c, mult, r, H
        self.atr = atr(h, l, c, p, H, H)
        self.pu = self.pl = None
        self.pd = 1
        self.states = []  # internal (upper, lower, direction) states consistent with everything the implementation has shown so far
        self.near_ties = 0
        self.exact_ties = 0
        # exact region: a prefix of candles that are all flat at one price P on the storage grid. There every true range, hence ATR,
        # is exactly 0 and both bands are exactly P: the close TOUCHES the previous band and does not break it, so this is decided
        # exactly (no near-tie latitude): the direction stays what it was and trend == P.
        k = -1
        if c and round(c[0], H) == c[0]:
            while k + 1 < len(c) and h[k + 1] == l[k + 1] == c[k + 1] == c[0]:
                k += 1
        self.flat_upto = k

    def _from_state(self, i, state, up0, lo0):
        pu, pl, pd = state
        c = Num.of(self.c[i])
        cu, cl = c.cmp(pu), c.cmp(pl)
        dirs = []
        if cu >= 0:
            dirs.append(("up", 1))
        if cu <= 0:
            if cl <= 0:
                dirs.append(("down", -1))
            if cl >= 0:
                dirs.append(("keep", pd))
        out = []
        for kind, d in dirs:
            if d != pd:
                out.append((d, up0, lo0))  # a flip: both bands restart from the basic bands
                continue
            # direction unchanged - whether the close stayed inside the channel or ran beyond the band on the trend's own side: the
            # band on the trailing side only ratchets ("bands that only ratchet in the trend direction")
            if d == 1:
                k = lo0.cmp(pl)
                if k <= 0:
                    out.append((d, up0, pl))
                if k >= 0:
                    out.append((d, up0, lo0))
            else:
                k = up0.cmp(pu)
                if k >= 0:
                    out.append((d, pu, lo0))
                if k <= 0:
                    out.append((d, up0, lo0))
        return out

    def candidates(self, i):
        """every (direction, upper, lower) the definition admits at i, from every internal state still consistent with what the
        implementation has shown so far (the visible output, rounded at r, may not tell which side of a near tie it took)"""
        a = self.atr[i]
        if not ok(a):
            return None
        if i <= self.flat_upto:
            P = Num(self.c[i], 0.0)
            self.exact_ties += 1
            return [(1 if self.pl is None else self.pd, P, P)]
        mid = Num.of((self.h[i] + self.l[i]) / 2).st(self.H)
        up0, lo0 = mid + self.mult * a, mid - self.mult * a
        if self.pl is None:
            return [(1, up0, lo0)]
        out, seen = [], set()
        for st_ in self.states:
            for cnd in self._from_state(i, st_, up0, lo0):
                key = (cnd[0], cnd[1].v, cnd[2].v)
                if key not in seen:
                    seen.add(key)
                    out.append(cnd)
        return out

    def restart(self):
        self.pu = self.pl = None
        self.states = []

    def step(self, i, got):
        """got = implementation's reading dict at i; returns (expected dict of Num/None/int for the admissible candidate closest to
        the implementation, number of candidates)"""
        cands = self.candidates(i)
        if cands is None:
            return {"trend": None, "direction": 1, "long": None, "short": None}, None
        if len(cands) > 1:
            self.near_ties += 1
        exact = i <= self.flat_upto
        gt = got.get("trend") if isinstance(got, dict) and isinstance(got.get("trend"), (int, float)) else None
        gd = got.get("direction") if isinstance(got, dict) else None
        scored = []
        for d, up, lo in cands:
            trend = lo if d == 1 else up
            shown = trend if (exact and round(trend.v, self.r) == trend.v) else trend.st(self.r)
            dist = abs((gt if gt is not None else 1e300) - trend.v) + (1e200 if gd != d else 0.0)
            fits = gd == d and gt is not None and abs(gt - shown.v) <= 4 * shown.e + 1e-9 * abs(shown.v)
            scored.append((dist, fits, d, up, lo, shown))
        scored.sort(key=lambda t: t[0])
        _, _, d, up, lo, shown = scored[0]
        self.pu, self.pl, self.pd = up, lo, d
        keep = [(u_, l_, d_) for _, fits, d_, u_, l_, _ in scored if fits]
        if len(keep) > 4:
            # many internal states fit what the implementation shows (coarse output, fine helpers): over-approximate them by ONE state
            # per direction whose bands are the hull of the fitting ones - sound (never excludes an admissible state) and bounded
            merged = []
            for dd in (1, -1):
                grp = [(u_, l_) for u_, l_, d_ in keep if d_ == dd]
                if grp:
                    merged.append((_hull([g[0] for g in grp]), _hull([g[1] for g in grp]), dd))
            keep = merged
        self.states = keep or [(up, lo, d)]
        return {"trend": shown, "direction": d, "long": shown if d == 1 else None, "short": shown if d == -1 else None}, len(cands)


def stdevthres(xs, p, mult, H):
    """returns list of admissible sets of booleans"""
    s = stdev(xs, p, H)
    out = []
    for i in range(len(xs)):
        if not ok(s[i]) or i == 0 or not ok(xs[i - 1]) or not ok(xs[i]):
            out.append({False})
            continue
        if xs[i] == xs[i - 1]:
            out.append({False})  # did not move at all: "moved by more than multiplier*sigma" is false whatever sigma >= 0 is
            continue
        k = Num.of(abs(xs[i] - xs[i - 1])).cmp(s[i] * mult)
        out.append({True} if k > 0 else ({False} if k < 0 else {True, False}))
    return out


# ------------------------------------------------------------------ momentum / oscillators / volume
def rsi(xs, p, r, H):
    out, g, lo = [], None, None
    for i in range(len(xs)):
        if g is not None:
            ch = xs[i] - xs[i - 1]
            g = ((g * (p - 1) + max(ch, 0.0)) * (1.0 / p)).st(H)
            lo = ((lo * (p - 1) + max(-ch, 0.0)) * (1.0 / p)).st(H)
        elif i >= p and all(ok(x) for x in xs[i - p:i + 1]):
            chs = [xs[j] - xs[j - 1] for j in range(i - p + 1, i + 1)]
            g = Num.of(sum(max(x, 0.0) for x in chs) / p).st(H)
            lo = Num.of(sum(max(-x, 0.0) for x in chs) / p).st(H)
        if g is None:
            out.append(None)
            continue
        if lo.v == 0.0:
            out.append(Num(100.0, rho(r)))  # no loss has occurred since the seed window: "100 when there are no losses"
            continue
        q = g / lo
        if q is ANY:
            # average loss not separated from zero. With a clearly positive average gain the RSI lies between the value for the
            # largest admissible loss and 100 ("100 when there are no losses"); with both averages near zero it is not pinned down.
            if g.v > 4 * g.e:
                worst = lo.v + 4 * lo.e
                low = 100.0 - 100.0 / (1.0 + (g.v - 4 * g.e) / worst) if worst > 0 else 100.0
                out.append(Num((100.0 + low) / 2, (100.0 - low) / 8 + rho(r)))  # /8: the comparison allows 4*err
            else:
                out.append(ANY)
            continue
        den = 1.0 + q
        inv = 100.0 / den
        out.append(ANY if inv is ANY else (100.0 - inv).st(r))
    return out


def macd(xs, f, s, sg, r, H):
    if s < f:
        f, s = s, f
    a, b = ema(xs, f, H), ema(xs, s, H)
    m = [(x - y).st(H) if ok(x) and ok(y) else None for x, y in zip(a, b)]
    sig = ema(m, sg, H)
    return [{"MACD": x.st(r) if ok(x) else None, "signal": y.st(r) if ok(y) else None,
             "histogram": (x - y).st(r) if ok(x) and ok(y) else None} for x, y in zip(m, sig)]


def roc(xs, p, r):
    out = []
    for i in range(len(xs)):
        if i < p or not ok(xs[i - p]) or not ok(xs[i]):
            out.append(None)
            continue
        q = Num.of(xs[i] - xs[i - p]) / Num.of(xs[i - p])
        out.append(ANY if q is ANY else (q * 100.0).st(r))
    return out


def stoch(h, l, xs, p, k, d, r, H):
    st_ = []
    for i in range(len(xs)):
        if i - p + 1 < 0:
            st_.append(None)
            continue
        lo, hi = min(l[i - p + 1:i + 1]), max(h[i - p + 1:i + 1])
        st_.append(Num.of((xs[i] - lo) / (hi - lo) * 100).st(H) if hi != lo else ANY)
    kk = sma(st_, k, H)
    dd = sma(kk, d, H)
    # a window that contains an undefined %stoch makes %K / %D undefined for as long as a rolling mean remembers it
    poisoned = False
    out = []
    for i, (a, b, c) in enumerate(zip(st_, kk, dd)):
        if a is ANY:
            poisoned = True
        if poisoned:
            out.append({"stoch": ANY if a is ANY else st(a, r), "k": ANY if i >= p - 1 + k - 1 else None, "d": ANY if i >= p - 1 + k - 1 + d - 1 else None})
        else:
            out.append({"stoch": st(a, r) if ok(a) else None, "k": st(b, r) if ok(b) else None, "d": st(c, r) if ok(c) else None})
    return out


def tsi(xs, p, sp, r, H):
    ch = [None] + [Num.of(xs[i] - xs[i - 1]) if ok(xs[i]) and ok(xs[i - 1]) else None for i in range(1, len(xs))]
    ab = [None if x is None else x.abs() for x in ch]
    a, b = ema(ema(ch, p, H), sp, H), ema(ema(ab, p, H), sp, H)
    out = []
    for x, y in zip(a, b):
        if not ok(y) or not ok(x):
            out.append(None)
        else:
            q = x / y
            out.append(ANY if q is ANY else (100 * q).st(r))
    return out


def aroon(h, l, p, r):
    out = []
    for i in range(len(h)):
        if i < p:
            out.append(None)
            continue
        mh, ml = max(h[i - p:i + 1]), min(l[i - p:i + 1])
        bh = min(k for k in range(p + 1) if h[i - k] == mh)
        bl = min(k for k in range(p + 1) if l[i - k] == ml)
        u, d = (p - bh) / p * 100, (p - bl) / p * 100
        out.append({"AROONU": Num.of(u).st(r), "AROOND": Num.of(d).st(r), "AROONOSC": Num.of(u - d).st(r)})
    return out


def adx(h, l, c, p, ps, r, H, dm0):
    """dm0 = 0.0 (directional movement of the first candle taken as 0) or None (undefined): both admissible."""
    n = len(h)
    pos, neg = [dm0] * n, [dm0] * n
    for i in range(1, n):
        up, dn = h[i] - h[i - 1], l[i - 1] - l[i]
        pos[i] = up if up > dn and up > 0 else 0.0
        neg[i] = dn if dn > up and dn > 0 else 0.0
    a, sp, sn = atr(h, l, c, p, H, H), rma(pos, p, H), rma(neg, p, H)
    dip, din, dx = [None] * n, [None] * n, [None] * n
    for i in range(n):
        if not ok(a[i]) or not ok(sp[i]) or not ok(sn[i]):
            continue
        q1, q2 = sp[i] / a[i], sn[i] / a[i]
        if q1 is ANY or q2 is ANY:
            dip[i] = din[i] = dx[i] = ANY
            continue
        dip[i], din[i] = (100 * q1).st(H), (100 * q2).st(H)
        q = (dip[i] - din[i]).abs() / (dip[i] + din[i])
        dx[i] = ANY if q is ANY else (100 * q).st(H)
    ad = rma_any(dx, ps, H)
    return [{"ADX": st(ad[i], r) if ad[i] is not None else None, "DM_Plus": st(dip[i], r) if dip[i] is not None else None,
             "DM_Neg": st(din[i], r) if din[i] is not None else None} for i in range(n)]


def rma_any(xs, p, r):
    """RMA over a series that may contain ANY: once an undefined input has entered, the average stays undefined
    (a Wilder average never forgets), but it still exists (not None) from the usual warm-up index on."""
    first = next((i for i, x in enumerate(xs) if x is not None), None)
    if first is None:
        return [None] * len(xs)
    bad = next((i for i, x in enumerate(xs) if x is ANY), None)
    clean = [x if (bad is None or i < bad) else None for i, x in enumerate(xs)]
    base = rma(clean, p, r)
    out = []
    for i in range(len(xs)):
        if bad is not None and i >= bad:
            out.append(ANY if i >= first + p - 1 else None)
        else:
            out.append(base[i])
    return out


def obv(c, v, r):
    """running sum; an implementation that adds to its stored (rounded) previous value accumulates one rounding per step when the
    volumes are not multiples of 10^-r (integer volumes stay exact)"""
    ints = all(float(x).is_integer() for x in v)
    out = [Num.of(v[0]).st(r)]
    tot = v[0]
    for i in range(1, len(c)):
        tot += v[i] if c[i] > c[i - 1] else (-v[i] if c[i] < c[i - 1] else 0)
        out.append(Num.of(tot).st(r) if ints else Num(tot, abs(tot) * EPS * (i + 1) + (i + 1) * rho(r)))
    return out


def vwap(h, l, c, v, r):
    out, pv, vol = [], Num(0.0), 0
    for i in range(len(c)):
        pv = pv + Num.of((h[i] + l[i] + c[i]) / 3) * v[i]
        vol += v[i]
        out.append((pv * (1.0 / vol)).st(r) if vol else ANY)
    return out
