"""Error calculus for the numeric oracles (C04-C06): Num(value, err) = a reference value together
with a first-order forward bound on how far a *correct* implementation that stores its named
intermediate series at a given number of decimals may be from it."""
from __future__ import annotations

import math

EPS = 2.3e-16


class _Any:
    """Value the definition does not pin down (0/0-like quotients): any finite number in range is admissible."""

    def __repr__(self):
        return "ANY"


ANY = _Any()


class Num:
    __slots__ = ("v", "e")

    def __init__(self, v, e=0.0):
        self.v = float(v)
        self.e = float(e)

    def __repr__(self):
        return f"Num({self.v!r}±{self.e:.3g})"

    @staticmethod
    def of(x):
        return x if isinstance(x, Num) else Num(x, abs(x) * EPS)

    def __add__(self, o):
        o = Num.of(o)
        return Num(self.v + o.v, self.e + o.e)

    __radd__ = __add__

    def __sub__(self, o):
        o = Num.of(o)
        return Num(self.v - o.v, self.e + o.e)

    def __rsub__(self, o):
        o = Num.of(o)
        return Num(o.v - self.v, self.e + o.e)

    def __mul__(self, o):
        o = Num.of(o)
        return Num(self.v * o.v, abs(self.v) * o.e + abs(o.v) * self.e + self.e * o.e)

    __rmul__ = __mul__

    def __truediv__(self, o):
        o = Num.of(o)
        if o.v == 0 or abs(o.v) <= 4 * o.e:
            return ANY
        q = self.v / o.v
        return Num(q, (self.e + abs(q) * o.e) / (abs(o.v) - o.e))

    def __rtruediv__(self, o):
        return Num.of(o) / self

    def __neg__(self):
        return Num(-self.v, self.e)

    def abs(self):
        return Num(abs(self.v), self.e)

    def sqrt(self, floor=0.0):
        e = self.e + floor
        v = math.sqrt(max(self.v, 0.0))
        hi = math.sqrt(max(self.v + e, 0.0))
        lo = math.sqrt(max(self.v - e, 0.0))
        return Num(v, max(hi - v, v - lo))

    def st(self, r):
        """stored at r decimals: charges the rounding budget rho(r)"""
        return Num(self.v, self.e + 0.5 * 10 ** (-r))

    def cmp(self, o):
        """-1 / +1 when separated by more than the combined error, 0 when ambiguous"""
        o = Num.of(o)
        d = self.v - o.v
        t = 4 * (self.e + o.e) + 1e-12 * max(1.0, abs(self.v), abs(o.v))
        return 0 if abs(d) <= t else (1 if d > 0 else -1)


def isnum(x):
    return isinstance(x, Num)


def nmax(xs):
    xs = [Num.of(x) for x in xs]
    return Num(max(x.v for x in xs), max(x.e for x in xs))


def nmin(xs):
    xs = [Num.of(x) for x in xs]
    return Num(min(x.v for x in xs), max(x.e for x in xs))


def nsum(xs):
    t = Num(0.0, 0.0)
    for x in xs:
        t = t + x
    return t
