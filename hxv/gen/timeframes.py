"""Timeframe choice against the stream step so that buckets hold 1..20 candles."""
TF_PALETTE = ["S1", "S5", "S10", "S15", "S30", "S45", "T1", "T2", "T3", "T5", "T7", "T10", "T15", "T30", "T45",
              "H1", "H2", "H3", "H4", "H5", "D1", "D2", "D7"]


def tf_seconds(tf):
    return {"S": 1, "T": 60, "H": 3600, "D": 86400}[tf[0].upper()] * int(tf[1:])


def pick_timeframe(rng, palette=None):
    tf = rng.choice(palette or TF_PALETTE)
    s = tf_seconds(tf)
    k = rng.choice([1, 2, 2, 3, 3, 4, 5, 5, 7, 10, 20])
    step = max(1, s // k)
    if rng.random() < 0.15:
        step = max(1, step + rng.choice([-1, 1, 7]))  # steps that do not divide the timeframe
    if rng.random() < 0.3:
        tf = tf.lower() if rng.random() < 0.5 else tf
    return tf, s, step
