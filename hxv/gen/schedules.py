"""Append schedules: how a stream of n rows is cut into append() calls.

schedule = {"preload": k, "precalc": bool, "chunks": [sizes summing to n-k, zeros allowed],
            "enc": "candle"|"dict"|"list"|"mixed"}
"""
from __future__ import annotations


def compositions(n):
    """All 2^(n-1) ordered compositions of n (n >= 1)."""
    for mask in range(1 << (n - 1)):
        out, cur = [], 1
        for i in range(n - 1):
            if mask >> i & 1:
                out.append(cur)
                cur = 1
            else:
                cur += 1
        out.append(cur)
        yield out


def rand_chunks(rng, m, style=None, bucket=None):
    """Chunk sizes summing to m (m >= 0)."""
    if m == 0:
        return []
    style = style or rng.choice(["singles", "geometric", "big_then_singles", "random", "bucket", "offbucket", "two"])
    out = []
    if style == "singles":
        out = [1] * m
    elif style == "geometric":
        k, left = 1, m
        while left > 0:
            out.append(min(k, left))
            left -= out[-1]
            k *= 2
    elif style == "big_then_singles":
        big = rng.randint(max(1, m // 2), m)
        out = [big] + [1] * (m - big)
    elif style == "two":
        a = rng.randint(1, m)
        out = [a] + ([m - a] if m - a else [])
    elif style in ("bucket", "offbucket") and bucket:
        b = max(1, bucket + (0 if style == "bucket" else rng.choice([-1, 1])))
        left = m
        while left > 0:
            out.append(min(b, left))
            left -= out[-1]
    else:
        left = m
        while left > 0:
            c = min(left, rng.choice([1, 1, 1, 2, 3, 5, 8, 13, 21, 50]))
            out.append(c)
            left -= c
    return out


def rand_schedule(rng, n, bucket=None, allow_empty=True, encs=("candle",)):
    pre = rng.choice([0, 0, 0, 1, 2, n // 3, n // 2, max(0, n - 1)])
    pre = max(0, min(pre, n - 1))
    chunks = rand_chunks(rng, n - pre, bucket=bucket)
    if allow_empty and rng.random() < 0.25 and chunks:
        # sprinkle empty-list appends, never as the last call
        for _ in range(rng.randint(1, 3)):
            chunks.insert(rng.randint(0, len(chunks) - 1), 0)
    return {"preload": pre, "precalc": rng.random() < 0.4, "chunks": chunks, "enc": rng.choice(list(encs))}


def n_appends(schedule):
    return sum(1 for c in schedule["chunks"] if c > 0)
