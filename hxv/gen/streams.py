"""Workload generators: candle streams as JSON-able rows [iso-ts, o, h, l, c, v].

Every stream is well-formed in the sense of the property quantifiers: finite positive prices,
low <= open, close <= high, volume >= 0 (int), non-decreasing second-resolution naive timestamps.
"""
from __future__ import annotations

from datetime import datetime, timedelta

FAMILIES = [
    "walk", "trend_up", "trend_down", "flat", "flat_runs", "plateau", "zero_vol", "equal_vol",
    "spiky", "dyadic", "flat_start", "mono_start", "zero_vol_start",
]


def r2(x):
    return round(x, 2)


def _walk_candle(rng, p, scale=1.0, spiky=False, dyadic=False):
    if dyadic:
        q = 1 / 64
        o = p + rng.randint(-64, 64) * q
        c = o + rng.randint(-128, 128) * q
        h = max(o, c) + rng.randint(0, 64) * q
        l = min(o, c) - rng.randint(0, 64) * q
        if l <= 1:
            s = 2 - l
            s = round(s * 64) / 64
            o, c, h, l = o + s, c + s, h + s, l + s
        return o, h, l, c
    amp = scale
    if spiky and rng.random() < 0.04:
        amp = scale * 30
    o = p + rng.uniform(-1, 1) * scale
    c = o + rng.uniform(-2, 2) * amp
    h = max(o, c) + rng.uniform(0, 1) * scale
    l = min(o, c) - rng.uniform(0, 1) * scale
    floor = 0.05 * scale
    if l < floor:
        shift = floor - l + rng.uniform(0, 1) * scale
        o, c, h, l = o + shift, c + shift, h + shift, l + shift
    if scale >= 0.01:
        o, h, l, c = r2(o), r2(h), r2(l), r2(c)
        h = max(h, o, c)
        l = min(l, o, c)
    return o, h, l, c


def prices(rng, n, family, level=None):
    """List of (o,h,l,c,v) of length n for a family."""
    scale = 1.0
    if level is None:
        level = 100.0
    if family == "trend_down":
        level = 50.0 + 0.62 * n
    if family == "tiny":
        scale = 1e-9  # quotes in very small units: ratios (RSI, ROC, STOCH, Aroon) must not care
        level = 100.0 * scale
    if family == "scale":
        scale = rng.choice([1e-3, 1e-1, 10.0, 1e3, 1e5])
        level = 100.0 * scale
    p = level
    out = []
    flat_left = 0
    if family in ("flat_start", "mono_start", "zero_vol_start"):
        head = rng.randint(3, min(max(4, n // 2), 60))
    else:
        head = 0
    const_vol = rng.randint(1, 500)
    for i in range(n):
        v = rng.randint(0, 1000)
        if family == "flat" or (family == "flat_start" and i < head):
            o = h = l = c = p
        elif family in ("trend_up", "trend_down") or (family == "mono_start" and i < head):
            sgn = 1 if family != "trend_down" else -1
            if family == "mono_start" and head % 2:
                sgn = -1
            o = p
            c = r2(p + sgn * r2(rng.uniform(0.01, 0.6)))
            h = r2(max(o, c) + rng.uniform(0, 0.3))
            l = r2(min(o, c) - rng.uniform(0, 0.3))
            p = c
        elif family == "flat_runs":
            if flat_left > 0:
                flat_left -= 1
                o = h = l = c = p
            else:
                if rng.random() < 0.06:
                    flat_left = rng.choice([3, 5, 8, 15, 30, 60, 120])
                o, h, l, c = _walk_candle(rng, p, scale)
                p = c
        elif family == "plateau":
            # identical closes, non-zero ranges
            o = r2(p + rng.uniform(-0.5, 0.5))
            c = p
            h = r2(max(o, c) + rng.uniform(0.01, 1))
            l = r2(max(0.01, min(o, c) - rng.uniform(0.01, 1)))
            if rng.random() < 0.03:
                p = r2(p + rng.uniform(-2, 2))
                p = max(p, 2.0)
        elif family == "dyadic":
            o, h, l, c = _walk_candle(rng, p, dyadic=True)
            p = c
        else:
            o, h, l, c = _walk_candle(rng, p, scale, spiky=(family == "spiky"))
            p = c
        if family == "zero_vol_start" and i < head:
            v = 0
        if family == "zero_vol":
            if rng.random() < 0.7:
                v = 0
        elif family == "equal_vol":
            mode = (i // 7) % 3
            if mode == 0:
                v = const_vol  # repeated volume, changing close
            elif mode == 1:
                # changing volume, unchanged close
                c_prev = out[-1][3] if out else c
                c = c_prev
                h = max(h, c, o)
                l = min(l, c, o)
                p = c
        if family == "frac_vol":
            v = v * 1e-5  # fractional lot sizes
        out.append((o, h, l, c, v))
    return out


def inject_degenerate(rng, pr, min_len):
    """Splice a flat / zero-volume / monotone window into an existing price list (in place copy)."""
    n = len(pr)
    pr = list(pr)
    if n < min_len + 4:
        return pr, None
    kind = rng.choice(["flat", "zero_vol", "flat0", "mono"])
    length = rng.randint(min_len, max(min_len, min(n - 2, min_len * 3)))
    if rng.random() < 0.4 and n - 2 > min_len + 25:
        length = rng.randint(min_len + 25, min(n - 2, min_len + 90))  # long enough for 4-decimal Wilder averages to hit 0.0
    start = rng.randint(1, n - length)
    base = pr[start - 1][3]
    for i in range(start, start + length):
        o, h, l, c, v = pr[i]
        if kind == "flat":
            pr[i] = (base, base, base, base, v)
        elif kind == "flat0":
            pr[i] = (base, base, base, base, 0)
        elif kind == "zero_vol":
            pr[i] = (o, h, l, c, 0)
        elif kind == "mono":
            nb = r2(base + 0.25)
            pr[i] = (base, nb, base, nb, v)
            base = nb
    return pr, {"kind": kind, "start": start, "len": length}


BASES = [
    datetime(2023, 6, 1, 9, 0, 0),
    datetime(2023, 6, 1, 9, 0, 1),
    datetime(2023, 6, 1, 8, 59, 59),
    datetime(2023, 6, 1, 9, 2, 30),
    datetime(2023, 6, 1, 23, 58, 0),
    datetime(2024, 2, 28, 22, 17, 43),
    datetime(2023, 12, 31, 23, 0, 0),
    datetime(2023, 6, 1, 0, 0, 0),
    datetime(1999, 12, 31, 21, 3, 9),
    datetime(1965, 3, 7, 10, 1, 30),   # before the epoch: floor vs truncation differ for negative offsets
    datetime(1969, 12, 31, 23, 57, 0),
]


def timestamps(rng, n, step, mode="regular", tf_s=None, base=None, max_gap_buckets=40):
    """n naive datetimes, non-decreasing. mode: regular | jitter | dups | gaps."""
    t = base if base is not None else rng.choice(BASES)
    out = []
    tf_s = tf_s or step
    for i in range(n):
        out.append(t)
        if mode == "regular":
            d = step
        elif mode == "dups":
            d = rng.choice([0, 0, step, step, step, 2 * step])
        elif mode == "jitter":
            d = rng.choice([step, step, step, max(1, step // 2), 2 * step, 3 * step, 0, max(1, step - 1), step + 1])
        elif mode == "gaps":
            x = rng.random()
            if x < 0.80:
                d = step
            elif x < 0.86:
                d = 0
            elif x < 0.93:
                d = tf_s * rng.randint(1, 3) + rng.choice([0, 1, step])
            else:
                d = tf_s * rng.randint(2, max_gap_buckets) + rng.choice([0, 0, 1, max(1, step // 2)])
        else:
            raise ValueError(mode)
        t = t + timedelta(seconds=int(d))
    return out


def make_rows(rng, n, family="walk", step=60, ts_mode="regular", tf_s=None, base=None, max_gap_buckets=40):
    pr = prices(rng, n, family)
    ts = timestamps(rng, n, step, ts_mode, tf_s, base, max_gap_buckets)
    rows = [[t.isoformat(), o, h, l, c, v] for t, (o, h, l, c, v) in zip(ts, pr)]
    for i in range(1, len(rows)):
        if rows[i][0] == rows[i - 1][0] and rng.random() < 0.35:
            rows[i] = list(rows[i - 1])  # an exact re-send of the previous candle: still a candle of the stream (its volume counts)
    return rows


def rows_from(pr, ts):
    return [[t.isoformat(), o, h, l, c, v] for t, (o, h, l, c, v) in zip(ts, pr)]

def add_subsecond(rng, rows):
    """in place: sub-second parts on the timestamps, still non-decreasing"""
    from datetime import datetime, timedelta
    prev = None
    for r in rows:
        t = datetime.fromisoformat(r[0]) + timedelta(microseconds=rng.choice([0, 1, 250000, 500000, 999999]))
        if prev is not None and t < prev:
            t = prev
        prev = t
        r[0] = t.isoformat()
    return rows
