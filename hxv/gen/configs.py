"""Indicator configurations as JSON-able dicts and the builder that turns them into real objects.

cfg = {"cls": <attribute of hexital.indicators>, "kw": {...}}                  ordinary indicator
cfg = {"cls": "Amorph", "analysis": <key of PATTERN_MAP|MOVEMENT_MAP>, "kw": {...}}   wrapper
Common keyword arguments (timeframe, timeframe_fill, candles_lifespan (seconds), candlestick_type,
round_value, name_suffix, fullname_override) travel inside kw as plain values.
"""
from __future__ import annotations

import math
from datetime import timedelta

from hxv import boot

boot.boot()

import hexital.indicators as I  # noqa: E402
from hexital.analysis import MOVEMENT_MAP, PATTERN_MAP  # noqa: E402

CLASSES = [
    "ADX", "AROON", "ATR", "BBANDS", "Counter", "Donchian", "EMA", "HighestLowest",
    "HighLowAverage", "HMA", "KC", "MACD", "OBV", "RMA", "ROC", "RSI", "SMA",
    "StandardDeviation", "StandardDeviationThreshold", "STOCH", "Supertrend", "TR", "TSI",
    "VWAP", "VWMA", "WMA",
]
MA_CLASSES = ["SMA", "EMA", "RMA", "WMA", "VWMA", "HMA"]
VOL_CLASSES = ["TR", "ATR", "StandardDeviation", "BBANDS", "KC", "Donchian", "HighestLowest",
               "HighLowAverage", "Supertrend", "StandardDeviationThreshold", "Counter"]
MOM_CLASSES = ["RSI", "MACD", "ROC", "STOCH", "TSI", "AROON", "ADX", "OBV", "VWAP"]
ANALYSES = sorted(MOVEMENT_MAP) + sorted(PATTERN_MAP)

PRICE_FIELDS = ["open", "high", "low", "close"]
HAS_INPUT = {"SMA", "EMA", "RMA", "WMA", "HMA", "StandardDeviation", "BBANDS", "KC", "MACD", "ROC",
             "RSI", "STOCH", "StandardDeviationThreshold", "TSI", "Supertrend"}


VOLUME_OK = {"SMA", "EMA", "RMA", "WMA", "HMA", "StandardDeviation", "RSI", "TSI", "MACD",
             "StandardDeviationThreshold", "BBANDS"}


def pick_period(rng, lo=2, hi=40):
    x = rng.random()
    if x < 0.45:
        return rng.choice([2, 3, 5, 14, 3, 5])
    if x < 0.9:
        return rng.randint(lo, min(hi, 20))
    return rng.randint(lo, hi)


def rand_kw(rng, cls, allow_input=True, max_period=40):
    kw = {}
    P = lambda: pick_period(rng, 2, max_period)  # noqa: E731
    if cls in ("SMA", "EMA", "RMA", "WMA", "VWMA", "ATR", "AROON", "BBANDS", "Donchian", "ROC",
               "RSI", "StandardDeviation", "StandardDeviationThreshold", "Supertrend", "KC",
               "HighestLowest", "VWAP"):
        kw["period"] = P()
    if cls == "HMA":
        kw["period"] = rng.choice([2, 3, 4, 5, 9, 10, 16, 20, rng.randint(2, max(4, max_period))])  # 2 and 3: both helper WMAs have period 1
    if cls == "EMA" and rng.random() < 0.2:
        kw["smoothing"] = rng.choice([1.0, 1.5, 2.0, 3.0])
    if cls in ("KC", "Supertrend", "StandardDeviationThreshold"):
        kw["multiplier"] = rng.choice([0.5, 1.0, 1.5, 2.0, 2.5, 3.0, 4.0])
    if cls == "MACD":
        f, s = sorted(rng.sample(range(2, max(8, min(30, max_period))), 2))
        if rng.random() < 0.15:
            f, s = s, f
        kw.update(fast_period=f, slow_period=s, signal_period=rng.randint(2, 9))
    if cls == "STOCH":
        kw.update(period=P(), slow_period=rng.randint(2, 5), smoothing_k=rng.randint(2, 5))
    if cls == "TSI":
        kw["period"] = rng.randint(2, min(25, max_period))
        if rng.random() < 0.4:
            kw["smooth_period"] = rng.randint(2, 13)
    if cls == "ADX":
        kw["period"] = P()
        if rng.random() < 0.4:
            kw["period_signal"] = rng.randint(2, 14)
    if cls == "Counter":
        kw.update(rng.choice([
            {"input_value": "volume", "count_value": 0},
            {"input_value": "close", "count_value": 100.0},
            {"input_value": "high", "count_value": 101.0},
        ]))
    if allow_input and cls in HAS_INPUT and rng.random() < 0.3:
        kw["input_value"] = rng.choice(["open", "high", "low", "volume"] if cls in VOLUME_OK else ["open", "high", "low"])
    if rng.random() < 0.35:
        kw["round_value"] = rng.choice([0, 2, 6, 8, 10])
    return kw


def rand_analysis_kw(rng, analysis):
    two = {"cross", "crossover", "crossunder"}
    if analysis in ("positive", "negative"):
        return {}
    if analysis in PATTERN_MAP:
        return {} if rng.random() < 0.6 else {"lookback": rng.randint(1, 5)}
    kw = {}
    if analysis in two:
        a, b = rng.sample(["open", "close", "high", "low"], 2)
        kw.update(indicator_one=a, indicator_two=b)
    else:
        kw["indicator"] = rng.choice(["close", "high", "low", "volume", "open"])
    if rng.random() < 0.8:
        kw["length"] = rng.choice([1, 2, 3, 4, 5, 8, 13])
    return kw


def rand_config(rng, classes=None, amorph_share=0.12, allow_input=True, max_period=40):
    if classes is None and rng.random() < amorph_share:
        an = rng.choice(ANALYSES)
        kw = rand_analysis_kw(rng, an)
        if rng.random() < 0.25:
            kw["round_value"] = rng.choice([0, 2, 6])
        return {"cls": "Amorph", "analysis": an, "kw": kw}
    cls = rng.choice(classes or CLASSES)
    if cls == "Amorph":
        an = rng.choice(ANALYSES)
        return {"cls": "Amorph", "analysis": an, "kw": rand_analysis_kw(rng, an)}
    return {"cls": cls, "kw": rand_kw(rng, cls, allow_input, max_period)}


def _common(kw):
    kw = dict(kw)
    if kw.get("candles_lifespan") is not None and not isinstance(kw["candles_lifespan"], timedelta):
        kw["candles_lifespan"] = timedelta(seconds=kw["candles_lifespan"])
    return kw


def build(cfg, candles=None, **extra):
    kw = _common({**cfg.get("kw", {}), **extra})
    if candles is not None:
        kw["candles"] = candles
    if cfg["cls"] == "Amorph":
        fn = (PATTERN_MAP | MOVEMENT_MAP)[cfg["analysis"]]
        return I.Amorph(analysis=fn, **kw)
    return getattr(I, cfg["cls"])(**kw)


COMMON_KW = {"timeframe", "timeframe_fill", "candles_lifespan", "candlestick_type", "round_value", "name_suffix",
             "fullname_override", "candles"}
MAP_KEY = {v.__name__: k for k, v in I.INDICATOR_MAP.items()}


def as_dict_form(cfg, **extra):
    """The configuration-dict form Hexital accepts for the same indicator."""
    kw = _common({**cfg.get("kw", {}), **extra})
    if cfg["cls"] == "Amorph":
        # analysis arguments travel under "args": a flat "indicator" key would be read as a class name
        common = {k: v for k, v in kw.items() if k in COMMON_KW}
        args = {k: v for k, v in kw.items() if k not in COMMON_KW}
        return {"analysis": cfg["analysis"], **common, **({"args": args} if args else {})}
    return {"indicator": MAP_KEY[cfg["cls"]], **kw}


# ------------------------------------------------------------------ warm-up / look-back tables
def lookback(cfg):
    """Upper bound on how many predecessor candles a reading may need (C15 precondition, C07 n0)."""
    kw = cfg.get("kw", {})
    c = cfg["cls"]
    p = kw.get("period")
    if c == "Amorph":
        return max(12, kw.get("length", 4) + 2, (kw.get("lookback") or 0) + 12)
    if c in ("SMA", "WMA", "VWMA", "Donchian", "ROC", "HighestLowest", "AROON"):
        return (p or 10) + 2 if c != "HighestLowest" else (p or 100) + 2
    if c in ("EMA", "RMA"):
        return (p or 10) + 2
    if c == "HMA":
        p = p or 10
        return p + int(math.sqrt(p)) + 2
    if c in ("TR", "OBV", "HighLowAverage", "Counter"):
        return 2
    if c == "VWAP":
        return 2
    if c == "ATR":
        return (p or 14) + 2
    if c in ("StandardDeviation", "StandardDeviationThreshold"):
        return (p or (30 if c == "StandardDeviation" else 10)) + 3
    if c == "BBANDS":
        return (p or 5) + 3
    if c in ("KC",):
        return (p or 20) + 3
    if c == "Supertrend":
        return (p or 7) + 3
    if c == "RSI":
        return (p or 14) + 3
    if c == "MACD":
        f, s, g = kw.get("fast_period", 12), kw.get("slow_period", 26), kw.get("signal_period", 9)
        return max(f, s) + g + 2
    if c == "STOCH":
        return (p or 14) + kw.get("smoothing_k", 3) + kw.get("slow_period", 3) + 2
    if c == "TSI":
        p = p or 25
        sp = kw.get("smooth_period") or (p // 2 + (p % 2 > 0))
        return p + sp + 3
    if c == "ADX":
        p = p or 14
        return p + (kw.get("period_signal") or p) + 3
    return 50
