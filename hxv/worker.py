"""One shard: generate cases, run them under the property's monitors, aggregate what was observed."""
from __future__ import annotations

import importlib
import json
import random
import sys
import time
import traceback

from hxv import boot

boot.boot()

from hxv.core import CaseTimeout, digest, jdump, short, time_limit  # noqa: E402


def load(prop):
    return importlib.import_module(f"hxv.props.{prop.lower()}")


def merge_stats(dst, src):
    for k, v in (src or {}).items():
        if isinstance(v, (int, float)) and not isinstance(v, bool):
            if k.startswith("max:"):
                dst[k] = max(dst.get(k, v), v)
            else:
                dst[k] = dst.get(k, 0) + v
        elif isinstance(v, (list, set, tuple)):
            s = dst.setdefault(k, set())
            s.update(v)
        elif isinstance(v, dict):
            merge_stats(dst.setdefault(k, {}), v)


def run_one(mod, case, agg, idx=None, keep=4):
    agg["evaluations"] += 1
    t0 = time.time()
    try:
        with time_limit(getattr(mod, "CASE_TIMEOUT", 30)):
            res = mod.run_case(case)
    except CaseTimeout:
        agg["timeouts"].append({"idx": idx, "case": short(case, 400)})
        return None
    except Exception:
        agg["errors"].append({"idx": idx, "tb": traceback.format_exc()[-1500:], "case": short(case, 400)})
        return None
    dt = time.time() - t0
    agg["stats"]["max:case_wall_s"] = max(agg["stats"].get("max:case_wall_s", 0.0), round(dt, 3))
    agg["evaluations"] += max(0, res.get("units", 1) - 1)  # a case may be a block of several executions
    if res.get("digests") is not None:
        agg["nontrivial"].update(res["digests"])
    elif res.get("nontrivial"):
        agg["nontrivial"].add(res.get("digest") or digest(case))
    merge_stats(agg["stats"], res.get("stats"))
    for v in res.get("violations", []):
        sig = v["sig"]
        slot = agg["violations"].setdefault(sig, {"count": 0, "examples": []})
        slot["count"] += 1
        if len(slot["examples"]) < keep:
            slot["examples"].append({"case": case, "witness": v})
    if len(agg["samples"]) < 2 and res.get("nontrivial"):
        agg["samples"].append(res.get("sample") or case)
    return res


def new_agg():
    return {"evaluations": 0, "nontrivial": set(), "stats": {}, "violations": {}, "timeouts": [], "errors": [], "samples": []}


def dump_agg(agg):
    def conv(x):
        if isinstance(x, set):
            return {"__set__": sorted(x, key=repr)}
        if isinstance(x, dict):
            return {k: conv(v) for k, v in x.items()}
        return x

    out = dict(agg)
    out["nontrivial"] = sorted(agg["nontrivial"])
    out["stats"] = conv(agg["stats"])
    return jdump(out)


def main(argv):
    prop, tier, seed, shard, nshards, out = argv[0], argv[1], int(argv[2]), int(argv[3]), int(argv[4]), argv[5]
    mod = load(prop)
    plan = mod.plan(tier)
    agg = new_agg()
    total = plan["cases"]
    deadline = time.time() + plan.get("shard_budget_s", 1e9)
    for idx in range(shard, total, nshards):
        if time.time() > deadline:
            agg["stats"]["budget_cut_cases"] = agg["stats"].get("budget_cut_cases", 0) + 1
            continue
        rng = random.Random(f"{mod.ID}:{seed}:{idx}")
        case = mod.gen_case(rng, tier, idx)
        if case is None:
            continue
        run_one(mod, case, agg, idx)
    if hasattr(mod, "extra_cases"):
        for case in mod.extra_cases(tier, seed, shard, nshards):
            run_one(mod, case, agg, "extra")
    if hasattr(mod, "shard_finish"):
        merge_stats(agg["stats"], mod.shard_finish())
    with open(out, "w") as f:
        f.write(dump_agg(agg))


if __name__ == "__main__":
    main(sys.argv[1:])
