"""One shard: generate cases, run them under the property's monitors, aggregate what was observed."""
from __future__ import annotations

import importlib
import json
import os
import random
import sys
import time
import traceback

from hxv import boot

boot.boot()

from hxv.core import CaseTimeout, digest, jdump, short, time_limit  # noqa: E402


def load(prop):
    return importlib.import_module(f"hxv.props.{prop.lower()}")


def merge_stats(dst, src):
    for k, v in (src or {}).items():
        if isinstance(v, (int, float)) and not isinstance(v, bool):
            if k.startswith("max:"):
                dst[k] = max(dst.get(k, v), v)
            else:
                dst[k] = dst.get(k, 0) + v
        elif isinstance(v, (list, set, tuple)):
            s = dst.setdefault(k, set())
            s.update(v)
        elif isinstance(v, dict):
            merge_stats(dst.setdefault(k, {}), v)


class StepBudgetExceeded(BaseException):
    """Raised from the sys.monitoring callback once a case has entered more library functions than any terminating
    execution of its size plausibly needs. A logical (not wall-clock) bound: non-termination is reported as a violation."""


STEP_TOOL = 4
_steps = {"n": 0, "limit": 0, "on": False}


def _step_guard_install():
    if _steps["on"] or os.environ.get("VERIF_NO_STEP_BUDGET"):
        return
    mon = sys.monitoring
    try:
        mon.use_tool_id(STEP_TOOL, "hxv-steps")
    except ValueError:
        return
    root = os.path.join(boot.REPO, "hexital") + os.sep

    def on_start(code, offset):
        if not code.co_filename.startswith(root):
            return mon.DISABLE
        _steps["n"] += 1
        if _steps["limit"] and _steps["n"] > _steps["limit"]:
            _steps["limit"] = 0
            raise StepBudgetExceeded()

    mon.register_callback(STEP_TOOL, mon.events.PY_START, on_start)
    mon.set_events(STEP_TOOL, mon.events.PY_START)
    _steps["on"] = True


def run_one(mod, case, agg, idx=None, keep=4):
    agg["evaluations"] += 1
    t0 = time.time()
    _step_guard_install()
    _steps["n"] = 0
    _steps["limit"] = getattr(mod, "STEP_BUDGET", 20_000_000)
    try:
        with time_limit(getattr(mod, "CASE_TIMEOUT", 30)):
            res = mod.run_case(case)
    except StepBudgetExceeded:
        _steps["limit"] = 0
        res = {"violations": [{"monitor": "step-budget", "sig": f"{mod.ID}|does-not-terminate-within-step-budget",
                               "detail": f"the case entered more than {getattr(mod, 'STEP_BUDGET', 20_000_000)} library functions (a logical bound far above any terminating run of this size)"}],
               "nontrivial": True, "stats": {"step_budget_exceeded": 1}}
    except CaseTimeout:
        agg["timeouts"].append({"idx": idx, "case": short(case, 400)})
        return None
    except Exception:
        agg["errors"].append({"idx": idx, "tb": traceback.format_exc()[-1500:], "case": short(case, 400)})
        return None
    _steps["limit"] = 0
    agg["stats"]["max:library_function_entries_per_case"] = max(agg["stats"].get("max:library_function_entries_per_case", 0), _steps["n"])
    dt = time.time() - t0
    agg["stats"]["max:case_wall_s"] = max(agg["stats"].get("max:case_wall_s", 0.0), round(dt, 3))
    agg["evaluations"] += max(0, res.get("units", 1) - 1)  # a case may be a block of several executions
    if res.get("digests") is not None:
        agg["nontrivial"].update(res["digests"])
    elif res.get("nontrivial"):
        agg["nontrivial"].add(res.get("digest") or digest(case))
    merge_stats(agg["stats"], res.get("stats"))
    for v in res.get("violations", []):
        sig = v["sig"]
        slot = agg["violations"].setdefault(sig, {"count": 0, "examples": []})
        slot["count"] += 1
        if len(slot["examples"]) < keep:
            slot["examples"].append({"case": case, "witness": v})
    if len(agg["samples"]) < 2 and res.get("nontrivial"):
        agg["samples"].append(res.get("sample") or case)
    return res


def new_agg():
    return {"evaluations": 0, "nontrivial": set(), "stats": {}, "violations": {}, "timeouts": [], "errors": [], "samples": []}


def dump_agg(agg):
    def conv(x):
        if isinstance(x, set):
            return {"__set__": sorted(x, key=repr)}
        if isinstance(x, dict):
            return {k: conv(v) for k, v in x.items()}
        return x

    out = dict(agg)
    out["nontrivial"] = sorted(agg["nontrivial"])
    out["stats"] = conv(agg["stats"])
    return jdump(out)


def main(argv):
    prop, tier, seed, shard, nshards, out = argv[0], argv[1], int(argv[2]), int(argv[3]), int(argv[4]), argv[5]
    mod = load(prop)
    plan = mod.plan(tier)
    try:  # a runaway allocation in the code under test must end as an exception in the case, not as an OOM kill of the sandbox
        import resource
        resource.setrlimit(resource.RLIMIT_AS, (6 << 30, 6 << 30))
    except Exception:
        pass
    agg = new_agg()
    total = plan["cases"]
    deadline = time.time() + plan.get("shard_budget_s", 1e9)
    for idx in range(shard, total, nshards):
        if time.time() > deadline:
            agg["stats"]["budget_cut_cases"] = agg["stats"].get("budget_cut_cases", 0) + 1
            continue
        rng = random.Random(f"{mod.ID}:{seed}:{idx}")
        case = mod.gen_case(rng, tier, idx)
        if case is None:
            continue
        run_one(mod, case, agg, idx)
    if hasattr(mod, "extra_cases"):
        for case in mod.extra_cases(tier, seed, shard, nshards):
            run_one(mod, case, agg, "extra")
    if hasattr(mod, "shard_finish"):
        merge_stats(agg["stats"], mod.shard_finish())
    with open(out, "w") as f:
        f.write(dump_agg(agg))


if __name__ == "__main__":
    main(sys.argv[1:])
