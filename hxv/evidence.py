"""Evidence writer: schema-validated before it is written."""
import json
import os

from hxv.boot import VERIF
from hxv.core import jdefault

SCHEMA = "/root/.vp/EVIDENCE.schema.json"
LOCAL_SCHEMA = os.path.join(VERIF, "hxv", "EVIDENCE.schema.json")


def validate(doc):
    path = SCHEMA if os.path.exists(SCHEMA) else LOCAL_SCHEMA
    try:
        import jsonschema
    except Exception:
        jsonschema = None
    if jsonschema is not None and os.path.exists(path):
        with open(path) as f:
            jsonschema.validate(doc, json.load(f))
        return "jsonschema"
    cov = doc["coverage"]
    assert isinstance(doc["seed"], int) and doc["tier"] in ("quick", "thorough")
    assert cov["evaluations"] >= 1 and cov["distinct_nontrivial"] >= 0 and isinstance(cov["samples"], list)
    return "lite"


def write(prop, doc):
    doc = json.loads(json.dumps(doc, default=jdefault))
    try:
        doc["coverage"]["schema_validation"] = validate(doc)
    except Exception as e:  # an invalid evidence file is worse than a noisy one
        doc["coverage"]["schema_validation"] = f"FAILED: {str(e)[:300]}"
    os.makedirs(os.path.join(VERIF, "evidence"), exist_ok=True)
    path = os.path.join(VERIF, "evidence", f"{prop}.json")
    tmp = path + ".tmp"
    with open(tmp, "w") as f:
        json.dump(doc, f, indent=1, sort_keys=True)
        f.write("\n")
    os.replace(tmp, path)
    return path
