"""C19 - reading state and converting input have no hidden side effects.

Monitors: structural digest of the whole object graph (vars() walk of Indicator/Hexital/managers/
candles) before and after every read-only call; the object then keeps being used and must end equal to
a twin that never called an accessor; input guards (deep copies + identity lists) on caller-owned
dicts and lists around every append; delivery conservation on every list a Hexital holds after every append; encoding twins (Candle / dict / list / lists of those) compared
on every manager of a multi-timeframe Hexital.
"""
from __future__ import annotations

import copy

from hxv import boot
from hxv.core import encode_row, rows_to_candles, same, short, snapshot, ts_of
from hxv.gen import configs, streams
from hxv.gen.timeframes import pick_timeframe
from hxv.instr.graph import structure

boot.boot()
from hexital import Hexital  # noqa: E402

ID = "C19"
LEVEL = "exploration"
CASE_TIMEOUT = 90
RULE = ("case = (standalone indicator | Hexital with 1-3 members incl. member timeframes, stream, program interleaving appends with "
        "read-only calls: str/repr/name/settings/has_reading/reading/prev_reading/as_list/reading_count/reading_period/candles_sum/"
        "read_candle and the Hexital equivalents; the same rows appended in encodings Candle, dict, Dict(capitalised), list(ts last), "
        "list(ts first), and lists of each). non-trivial: >= 5 read-only calls digested, >= 2 appends, >= 1 non-None reading. "
        "distinct: case digest.")
ASSUMPTIONS = ["the list handed to the constructor is adopted by the object by design and is not a 'caller's list' in the property's sense",
               "Candle objects passed to append are adopted (and may be collapsed/converted in place) by design; only dicts and lists are guarded"]
ENCODINGS = ["candle", "dict", "Dict", "list", "list_ts_first", "dict_iso"]


def plan(tier):
    if tier == "thorough":
        return {"shards": 16, "cases": 50000, "shard_timeout_s": 3000, "shard_budget_s": 1500}
    return {"shards": 16, "cases": 2400, "shard_timeout_s": 600, "shard_budget_s": 100}


def floors(tier):
    return {"distinct_nontrivial": 200, "readonly_calls_digested": 10000, "accessor_kinds": 18, "input_guards_checked": 3000, "encoding_twin_comparisons": 1500, "delivery_checks": 3000}


def gen_case(rng, tier, idx):
    hexital = rng.random() < 0.6
    if rng.random() < 0.4:
        tf, tf_s, step = pick_timeframe(rng)
    else:
        tf, tf_s, step = None, None, 60
    n = rng.randint(30, 90)
    rows = streams.make_rows(rng, n, rng.choice(["walk", "flat_runs", "zero_vol", "frac_vol"]), step, rng.choice(["regular", "jitter"]), tf_s)
    if rng.random() < 0.2:
        from datetime import datetime, timedelta
        prev = None
        for r in rows:  # sub-second timestamps: every encoding (ISO strings included) must carry them through unchanged
            t = datetime.fromisoformat(r[0]) + timedelta(microseconds=rng.choice([0, 250000, 999999, 123456]))
            if prev is not None and t < prev:
                t = prev
            prev = t
            r[0] = t.isoformat()
    members = [configs.rand_config(rng, max_period=8, allow_input=False) for _ in range(rng.randint(1, 3) if hexital else 1)]
    if hexital:
        for c in members[1:]:
            if rng.random() < 0.6:
                s = (tf_s or step) * rng.choice([2, 3, 5])
                c["kw"]["timeframe"] = f"S{s}" if s % 60 else (f"T{s // 60}" if s % 3600 else f"H{s // 3600}")
            elif tf and rng.random() < 0.4:
                c["kw"]["timeframe"] = tf  # a member naming the Hexital's own timeframe explicitly
    prog = []
    left = n - 3
    while left > 0:
        k = min(left, rng.choice([1, 1, 2, 4, 9]))
        prog.append({"op": "append", "n": k, "wrap": rng.random() < 0.5})
        left -= k
        for _ in range(rng.randint(0, 4)):
            prog.append({"op": "read", "which": rng.randint(0, 40), "arg": rng.randint(0, 9)})
    return {"hexital": hexital, "tf": tf, "rows": rows, "members": members, "program": prog, "enc": rng.choice(ENCODINGS),
            "ha": hexital and rng.random() < 0.25}


def enc_item(row, enc):
    if enc == "dict_iso":
        ts, o, h, l, c, v = row
        return {"open": o, "high": h, "low": l, "close": c, "volume": v, "timestamp": ts if isinstance(ts, str) else ts.isoformat()}
    if enc == "list_ts_first":
        ts, o, h, l, c, v = row
        return [ts_of(ts), o, h, l, c, v]
    return encode_row(row, enc)


def enc_chunk(rows, pos, n, enc, wrap):
    items = [enc_item(r, enc) for r in rows[pos:pos + n]]
    return items[0] if (n == 1 and not wrap) else items


def make(case, candles):
    kw = {"timeframe": case["tf"]} if case["tf"] else {}
    if case.get("ha"):
        kw["candlestick_type"] = "HA"  # every timeframe must be handed the same (raw) candle whatever the encoding
    if case["hexital"]:
        return Hexital("h", candles, [configs.build(c) for c in case["members"]], **kw)
    return configs.build(case["members"][0], candles=candles, **kw)


def ind_accessors(ind):
    nm = ind.name
    return [
        ("str", lambda: str(ind)), ("repr", lambda: repr(ind)), ("name", lambda: ind.name), ("settings", lambda: ind.settings),
        ("has_reading", lambda: ind.has_reading), ("reading", lambda: ind.reading()), ("reading_idx", lambda: ind.reading(nm, -1) if ind.candles else None),
        ("prev_reading", lambda: ind.prev_reading()), ("as_list", lambda: ind.as_list()), ("as_list_named", lambda: ind.as_list("close")),
        ("reading_count", lambda: ind.reading_count()), ("reading_period", lambda: ind.reading_period(3)),
        ("candles_sum", lambda: ind.candles_sum(3, "close")), ("read_candle", lambda: ind.read_candle(ind.candles[-1]) if ind.candles else None),
        ("prev_exists", lambda: ind.prev_exists()), ("candle_manager", lambda: ind.candle_manager), ("prior_calc", lambda: ind.prior_calc),
    ]


def hex_accessors(hx):
    names = list(vars(hx)["_indicators"])
    nm = names[0] if names else "x"
    dotted = nm + ".x"
    out = [
        ("H.candles", lambda: hx.candles()), ("H.candles_tf", lambda: [hx.candles(t) for t in list(vars(hx)["_candles"])]),
        ("H.get_candles", lambda: hx.get_candles()), ("H.timeframes", lambda: hx.timeframes), ("H.indicators", lambda: hx.indicators),
        ("H.indicator", lambda: hx.indicator(nm)), ("H.indicator_settings", lambda: hx.indicator_settings),
        ("H.has_reading", lambda: hx.has_reading(nm)), ("H.reading", lambda: hx.reading(nm)), ("H.reading_dotted", lambda: hx.reading(dotted, -2)),
        ("H.prev_reading", lambda: hx.prev_reading(nm)), ("H.reading_as_list", lambda: hx.reading_as_list(nm)),
        ("H.reading_missing", lambda: hx.reading("no_such_indicator")), ("H.str", lambda: str(hx)), ("H.repr", lambda: repr(hx)),
    ]
    for n_ in names[:2]:
        out += [(f"member.{k}", f) for k, f in ind_accessors(vars(hx)["_indicators"][n_])]
    return out


def final_state(case, obj):
    lists = dict(obj.get_candles()) if case["hexital"] else {"": obj.candles}
    return {k: [(s["ts"], s["ohlcv"], s["ind"]) for s in snapshot(v, helpers=False)] for k, v in lists.items()}


def run_case(case):
    rows = case["rows"]
    stats = {"modes": {"hexital" if case["hexital"] else "indicator": 1}, "encodings": [case["enc"]], "candlestick": {"HA" if case.get("ha") else "none": 1}}
    viol = []
    reads = 0
    appends = 0
    try:
        obj = make(case, rows_to_candles(rows[:3]))
        twin = make(case, rows_to_candles(rows[:3]))
        obj.calculate()
        twin.calculate()
        pos = 3
        for w in case["program"]:
            if viol:
                break
            if w["op"] == "append":
                arg = enc_chunk(rows, pos, w["n"], case["enc"], w["wrap"])
                guard = copy.deepcopy(arg) if case["enc"] != "candle" else None
                ids = [id(x) for x in arg] if isinstance(arg, list) else None
                try:
                    obj.append(arg)
                except Exception as e:
                    viol.append({"monitor": "append-accepts-encoding", "sig": f"C19|append-raises|{case['enc']}|{type(e).__name__}",
                                 "detail": f"append({short(arg, 200)}) raised {e!r}"})
                    break
                twin.append(enc_chunk(rows, pos, w["n"], "candle", True))
                pos += w["n"]
                appends += 1
                stats["input_guards_checked"] = stats.get("input_guards_checked", 0) + 1
                if guard is not None and guard != arg:
                    viol.append({"monitor": "input-guard", "sig": f"C19|caller-data-altered|{case['enc']}",
                                 "detail": f"append altered the caller's value: before {short(guard, 250)} after {short(arg, 250)}"})
                if case["hexital"]:
                    # "delivers the same candle to every timeframe of a Hexital": every list the Hexital holds has received everything fed so far
                    fed = sum(r[5] for r in rows[:pos])
                    last_ts = ts_of(rows[pos - 1][0]).replace(microsecond=0)
                    for ln, lst in dict(obj.get_candles()).items():
                        stats["delivery_checks"] = stats.get("delivery_checks", 0) + 1
                        tot = sum(c.volume for c in lst)
                        if abs(tot - fed) > 1e-9 * max(1.0, fed) or not lst or lst[-1].timestamp < last_ts:
                            viol.append({"monitor": "delivery", "sig": f"C19|candle-not-delivered|{'member-tf' if ln != 'default' else 'main'}",
                                         "detail": f"after append #{appends} list {ln!r} holds volume {tot} of {fed} fed, newest candle {lst[-1].timestamp if lst else None} vs newest fed {last_ts}"})
                            break
                if ids is not None and ids != [id(x) for x in arg]:
                    viol.append({"monitor": "input-guard", "sig": f"C19|caller-list-altered|{case['enc']}", "detail": "element identities of the caller's list changed"})
            else:
                accs = hex_accessors(obj) if case["hexital"] else ind_accessors(obj)
                kind, f = accs[w["which"] % len(accs)]
                before = structure(obj)
                try:
                    f()
                except Exception as e:
                    viol.append({"monitor": "accessor-raises", "sig": f"C19|accessor-raises|{kind.split('.')[-1]}|{type(e).__name__}", "detail": f"{kind}: {e!r}"})
                    break
                after = structure(obj)
                reads += 1
                stats.setdefault("accessor_kinds", set()).add(kind.replace("member.", ""))
                stats["readonly_calls_digested"] = stats.get("readonly_calls_digested", 0) + 1
                if before != after:
                    viol.append({"monitor": "object-graph-digest", "sig": f"C19|accessor-mutates|{kind.split('.')[-1]}",
                                 "detail": f"{kind} changed the object graph: {graph_diff(before, after)}"})
        if not viol:
            a, b = final_state(case, obj), final_state(case, twin)
            stats["encoding_twin_comparisons"] = stats.get("encoding_twin_comparisons", 0) + len(a)
            for ln in b:
                if ln not in a or not same(a[ln], b[ln]):
                    i = next((i for i in range(min(len(a.get(ln, [])), len(b[ln]))) if not same(a[ln][i], b[ln][i])), -1)
                    viol.append({"monitor": "twin-without-accessors", "sig": f"C19|diverges-from-twin|{case['enc']}|{'member-tf' if ln not in ('', 'default') else 'main'}",
                                 "detail": f"list {ln!r}: object driven with encoding {case['enc']} and accessor calls differs from the Candle-fed twin that never called an accessor; lengths {len(a.get(ln, []))}/{len(b[ln])}, first diff at {i}: {short(a.get(ln, [None])[i] if i >= 0 else None, 200)} vs {short(b[ln][i] if i >= 0 else None, 200)}"})
                    break
            nontrivial = reads >= 5 and appends >= 2 and any(s[2] and any(v is not None for v in s[2].values()) for col in b.values() for s in col)
        else:
            nontrivial = True
    except Exception as e:
        import traceback
        viol.append({"monitor": "exception", "sig": f"C19|raises|{type(e).__name__}", "detail": (repr(e) + traceback.format_exc()[-500:])[:900]})
        nontrivial = True
    return {"violations": viol[:2], "nontrivial": nontrivial, "stats": stats,
            "sample": {"hexital": case["hexital"], "tf": case["tf"], "members": case["members"], "enc": case["enc"],
                       "program": case["program"][:20], "n_rows": len(rows)}}


def graph_diff(a, b, path="obj"):
    if type(a) is not type(b):
        return f"{path}: {short(a, 120)} -> {short(b, 120)}"
    if isinstance(a, tuple) and len(a) == 2 and isinstance(a[1], list) and isinstance(b[1], list):
        if a[0] != b[0]:
            return f"{path}: type {a[0]} -> {b[0]}"
        if len(a[1]) != len(b[1]):
            ka = [x[0] if isinstance(x, tuple) else None for x in a[1]]
            kb = [x[0] if isinstance(x, tuple) else None for x in b[1]]
            return f"{path}<{a[0]}>: {len(a[1])} -> {len(b[1])} entries; removed {[k for k in ka if k not in kb][:5]} added {[k for k in kb if k not in ka][:5]}"
        for x, y in zip(a[1], b[1]):
            if x != y:
                key = x[0] if isinstance(x, tuple) and len(x) == 2 else "?"
                return graph_diff(x[1] if isinstance(x, tuple) and len(x) == 2 else x, y[1] if isinstance(y, tuple) and len(y) == 2 else y, f"{path}.{key}")
    return f"{path}: {short(a, 120)} -> {short(b, 120)}"
