"""C04 - moving averages match their definitions and are position independent.

Engine: hxv/props/numeric.py. Three case kinds: price-field input; fabricated input series written
into candle.indicators (scalar or dotted dict field) that starts at offset 0/1/7/50 - compared with the
reference AND with a twin fed the same values at offset 0; chained input = another shipped indicator's
late-starting output. Every reading is also range-checked against the inputs it averages (HMA exempt).
"""
from __future__ import annotations

from hxv import boot
from hxv.core import rows_to_candles, short
from hxv.gen import configs, streams
from hxv.props import numeric
from hxv.ref.num import ANY, isnum

boot.boot()
from hexital import Candle  # noqa: E402

ID = "C04"
LEVEL = "exploration"
CASE_TIMEOUT = 60
CLASSES = configs.MA_CLASSES
RULE = ("case kinds: price (SMA/EMA/RMA/WMA/VWMA/HMA over a price field or volume, all stream families, round_value 2-10, batch or schedule); "
        "fabricated (input series incl. 0 and negative values written into candle.indicators as a scalar or dict field, first value at offset "
        "0/1/7/50; compared with the reference and with a twin whose series starts at offset 0); chained (input = RSI/ATR/EMA/TR/MACD.MACD/"
        "STOCH.k/BBANDS.BBM computed on the same candles). Oracles: reference definition within 4 x the propagated rounding bound, first "
        "reading exactly at s+period-1 (HMA s+p+floor(sqrt p)-2), reading inside [min,max] of the inputs it averages, offset twins equal "
        "within the budget. non-trivial: >= 10 readings compared. distinct: case digest.")
ASSUMPTIONS = ["inputs have leading gaps only (a shipped indicator's readings are contiguous once started, C09)",
               "EMA range check only for smoothing <= period+1"]
SOURCES = [
    ({"cls": "RSI", "kw": {"period": 5}}, "RSI_5"), ({"cls": "ATR", "kw": {"period": 4}}, "ATR_4"), ({"cls": "EMA", "kw": {"period": 6}}, "EMA_6"),
    ({"cls": "TR", "kw": {}}, "TR"), ({"cls": "MACD", "kw": {"fast_period": 3, "slow_period": 7, "signal_period": 4}}, "MACD_3_7_4.MACD"),
    ({"cls": "MACD", "kw": {"fast_period": 3, "slow_period": 7, "signal_period": 4}}, "MACD_3_7_4.signal"),
    ({"cls": "STOCH", "kw": {"period": 5}}, "STOCH_5.k"), ({"cls": "BBANDS", "kw": {"period": 6}}, "BBANDS_6.BBM"), ({"cls": "ROC", "kw": {"period": 9}}, "ROC"),
]


def plan(tier):
    if tier == "thorough":
        return {"shards": 16, "cases": 300000, "shard_timeout_s": 3000, "shard_budget_s": 1500}
    return {"shards": 16, "cases": 12000, "shard_timeout_s": 600, "shard_budget_s": 100}


def floors(tier):
    return {"distinct_nontrivial": 2000, "readings_compared": 300000, "classes_seen": len(CLASSES), "kinds/fabricated": 500, "kinds/chained": 500, "kinds/chained_hexital": 300,
            "offset_twin_readings": 10000, "range_checks": 100000}


def gen_case(rng, tier, idx):
    kind = rng.choice(["price", "price", "price", "fabricated", "fabricated", "chained", "chained", "chained_hexital"])
    if kind == "price":
        return numeric.gen_price_case(rng, tier, CLASSES)
    cls = rng.choice([c for c in CLASSES if c != "VWMA"])
    kw = configs.rand_kw(rng, cls, allow_input=False, max_period=14)
    if rng.random() < 0.5:
        kw["round_value"] = rng.choice([6, 8, 10])
    else:
        kw.pop("round_value", None)
    n = rng.randint(70, 170)
    rows = streams.make_rows(rng, n, rng.choice(["walk", "spiky", "flat_runs", "zero_vol"]), 60)
    if kind == "fabricated":
        s = rng.choice([0, 1, 7, 50])
        level = rng.choice([0.0, 1.0, 100.0, -20.0])
        vals, v = [], level
        for _ in range(n - s):
            v = round(v + rng.choice([0, 0, rng.uniform(-1.5, 1.5)]), 2)
            vals.append(rng.choice([v, v, v, 0.0]) if rng.random() < 0.1 else v)
        return {"kind": kind, "cfg": {"cls": cls, "kw": kw}, "rows": rows, "offset": s, "values": vals, "dict_field": rng.random() < 0.4,
                "mode": rng.choice(["batch", "batch", "incremental"])}
    src, name = rng.choice(SOURCES)
    if src["cls"] == cls and src["kw"].get("period") == kw.get("period"):
        kw["period"] = kw["period"] + 1  # distinct names: an indicator cannot take a series of its own name as input
    out = {"kind": kind, "cfg": {"cls": cls, "kw": kw}, "rows": rows, "source": src, "source_name": name, "mode": rng.choice(["batch", "incremental"])}
    if kind == "chained_hexital":
        # the same chain registered in a Hexital, in the user's order (input first), in every mix of object / dict form
        out["forms"] = [rng.choice(["dict", "object"]), rng.choice(["object", "dict"])]
        out["chunk"] = rng.choice([1, 1, 2, 5])
    return out


def range_check(cls, kw, col, xs, s0, stats, r):
    """reading within [min,max] of the inputs it averages (+- rounding)"""
    if cls == "HMA":
        return None
    p = kw.get("period", 10)
    a = None
    if cls in ("EMA", "RMA"):
        a = kw.get("smoothing", 2.0) / (p + 1.0) if cls == "EMA" else 1.0 / p
        if a > 1:
            return None
    for i, g in enumerate(col):
        if g is None or isinstance(g, dict):
            continue
        if a is None:
            w = [x for x in xs[max(0, i - p + 1):i + 1] if x is not None]
            slack = 0.5 * 10 ** -r
        else:
            w = [x for x in xs[:i + 1] if x is not None]
            slack = 0.5 * 10 ** -r / a
        if not w:
            continue
        stats["range_checks"] = stats.get("range_checks", 0) + 1
        if not (min(w) - slack - 1e-9 <= g <= max(w) + slack + 1e-9):
            return f"candle {i}: {g!r} outside the range [{min(w)}, {max(w)}] of the inputs it averages"
    return None


def build_fab(case, offset):
    rows, vals = case["rows"], case["values"]
    n = offset + len(vals)
    cs = rows_to_candles(rows[:n]) if n <= len(rows) else rows_to_candles((rows * 3)[:n])
    for i, c in enumerate(cs):
        if i >= offset:
            v = vals[i - offset]
            c.indicators = {"FAB": {"x": v, "y": -v} if case["dict_field"] else v}
    return cs


def run_ma(cfg, candles, mode):
    if mode == "batch":
        ind = configs.build(cfg, candles=candles)
        ind.calculate()
    else:
        ind = configs.build(cfg, candles=candles[:1])
        ind.calculate()
        for c in candles[1:]:
            ind.append(c)
    return ind


def run_case(case):
    if case["kind"] == "price":
        res = numeric.run_price_case(case, ID)
        res["stats"].setdefault("kinds", {})["price"] = 1
        if not res["violations"] and case["cfg"]["cls"] != "VWMA" and "sample" in res and not case["cfg"]["kw"].get("timeframe"):
            cfg = case["cfg"]
            from hxv.drive import batch
            try:
                ind = batch(cfg, case["rows"])
                xs = numeric.series(case["rows"], cfg["kw"].get("input_value", "close"))
                msg = range_check(cfg["cls"], cfg["kw"], ind.as_list(), xs, 0, res["stats"], cfg["kw"].get("round_value", 4))
                if msg:
                    res["violations"].append({"monitor": "range-check", "sig": f"C04|outside-input-range|{cfg['cls']}", "detail": f"{ind.name}: {msg}"})
            except Exception:
                pass
        return res
    cfg = {"cls": case["cfg"]["cls"], "kw": dict(case["cfg"]["kw"])}
    cls = cfg["cls"]
    r = cfg["kw"].get("round_value", 4)
    stats = {"classes_seen": [cls], "kinds": {case["kind"]: 1}, "modes": {case["mode"]: 1}}
    viol = []
    try:
        if case["kind"] == "fabricated":
            s = case["offset"]
            name = "FAB.x" if case["dict_field"] else "FAB"
            cfg["kw"]["input_value"] = name
            cs = build_fab(case, s)
            ind = run_ma(cfg, cs, case["mode"])
            col = ind.as_list()
            xs = [None] * s + list(case["values"])
            stats.setdefault("offsets", set()).add(f"s{s}")
        elif case["kind"] == "chained_hexital":
            from hexital import Hexital
            name = case["source_name"]
            cfg["kw"]["input_value"] = name
            entries = []
            for c_, form in zip((case["source"], cfg), case["forms"]):
                entries.append(configs.build(c_) if form == "object" else configs.as_dict_form(c_))
            stats.setdefault("hexital_forms", set()).add("+".join(case["forms"]))
            if case["mode"] == "batch":
                hx = Hexital("h", rows_to_candles(case["rows"]), entries)
                hx.calculate()
            else:
                hx = Hexital("h", rows_to_candles(case["rows"][:2]), entries)
                pos = 2
                while pos < len(case["rows"]):
                    hx.append(rows_to_candles(case["rows"][pos:pos + case["chunk"]]))
                    pos += case["chunk"]
            ind = hx.indicators[configs.build(cfg).name]
            cs = hx.candles()
            col = ind.as_list()
            main, _, fld = name.partition(".")
            xs = []
            for c in cs:
                v = vars(c)["indicators"].get(main)
                xs.append(v.get(fld) if (fld and isinstance(v, dict)) else v)
            s = next((i for i, x in enumerate(xs) if x is not None), len(xs))
        else:
            cs = rows_to_candles(case["rows"])
            src = configs.build(case["source"], candles=cs)
            src.calculate()
            name = case["source_name"]
            cfg["kw"]["input_value"] = name
            if case["mode"] == "batch":
                ind = configs.build(cfg, candles=cs)
                ind.calculate()
            else:
                # incremental: both indicators share one growing list; the source is calculated before the average on every append
                cs2 = rows_to_candles(case["rows"])
                shared = cs2[:1]
                src = configs.build(case["source"], candles=shared)
                ind = configs.build(cfg, candles=src.candles)
                for c in cs2[1:]:
                    src.append(c)
                    ind.calculate()
                cs = ind.candles
            col = ind.as_list()
            main, _, fld = name.partition(".")
            xs = []
            for c in cs:
                v = vars(c)["indicators"].get(main)
                xs.append(v.get(fld) if (fld and isinstance(v, dict)) else v)
            s = next((i for i, x in enumerate(xs) if x is not None), len(xs))
            stats.setdefault("sources", set()).add(name)
    except Exception as e:
        import traceback
        viol.append({"monitor": "exception", "sig": f"C04|raises|{cls}|{case['kind']}|{type(e).__name__}", "detail": (repr(e) + traceback.format_exc()[-400:])[:700]})
        return {"violations": viol, "nontrivial": True, "stats": stats}
    base = [(None, 0, 0, 0, 0, 0)] * len(col)
    v, comp, unv = numeric.check_against_reference(cfg, base, col, stats, s0=s, xs=xs)
    if v:
        viol.append({"monitor": "reference-definition", "sig": f"C04|{v['kind']}|{cls}|{case['kind']}",
                     "detail": f"{ind.name} over {name} starting at {s} ({case['mode']}): {v['detail']}"})
    else:
        msg = range_check(cls, cfg["kw"], col, xs, s, stats, r)
        if msg:
            viol.append({"monitor": "range-check", "sig": f"C04|outside-input-range|{cls}", "detail": f"{ind.name} over {name}: {msg}"})
    if not viol and case["kind"] == "fabricated" and case["offset"] > 0:
        twin = run_ma(cfg, build_fab(case, 0), "batch").as_list()
        exp = numeric.expected(cfg, base, col, s, xs)["fields"][""]
        for i, b in enumerate(twin):
            a = col[i + s] if i + s < len(col) else None
            e = exp[i + s] if i + s < len(exp) else None
            if (a is None) != (b is None):
                viol.append({"monitor": "offset-twin", "sig": f"C04|position-dependent|{cls}", "detail": f"{ind.name}: series at offset {s}: reading {a} at {i + s}; same series at offset 0: {b} at {i}"})
                break
            if a is None or not isnum(e):
                continue
            stats["offset_twin_readings"] = stats.get("offset_twin_readings", 0) + 1
            if abs(a - b) > 2 * (4 * e.e + numeric.FLOOR * max(1.0, abs(e.v))):
                viol.append({"monitor": "offset-twin", "sig": f"C04|position-dependent|{cls}",
                             "detail": f"{ind.name}: same input values give {a} when the series starts at {s} (candle {i + s}) but {b} when it starts at 0 (candle {i}); budget {2 * 4 * e.e:.3g}"})
                break
    return {"violations": viol, "nontrivial": comp >= 10, "stats": stats,
            "sample": {"kind": case["kind"], "cfg": cfg, "input": name, "first_input_index": s, "mode": case["mode"], "column_tail": col[-2:], "readings_compared": comp}}
