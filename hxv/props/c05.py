"""C05 - volatility, range, channel and utility indicators match their definitions.
Engine and oracle: hxv/props/numeric.py (reference definitions over the raw candles, propagated rounding
budget, warm-up intervals)."""
from hxv.gen import configs
from hxv.props import numeric

ID = "C05"
LEVEL = "exploration"
CASE_TIMEOUT = 60
CLASSES = configs.VOL_CLASSES
RULE = ("case = (one of TR, ATR, STDEV, BBANDS, KC, Donchian, Highest/Lowest, HLA, Supertrend, STDEVTHRES, Counter with random period / multiplier / "
        "input / round_value in {2..10}, stream of 40-300 candles from all families incl. flat, monotone and zero-range starts, batch or an append "
        "schedule, base or collapsing timeframe). The recorded output column is compared with the reference definition computed from the raw candles "
        "within 4 x the propagated rounding bound; first readings must fall in the documented warm-up interval. non-trivial: >= 10 readings compared "
        "and <= 20 % of the points unverifiable. distinct: case digest.")
ASSUMPTIONS = ["numeric agreement is certified up to the stated rounding budget, whose tightness is reported (max err/bound)",
               "points whose budget exceeds 0.5 % of the price level are not decided (unverifiable_points)",
               "STDEV / BBANDS may start at p-1 or p, KC band at p-1 or p (both readings of 'documented')",
               "Supertrend / STDEVTHRES: where a comparison is closer than the error bounds both outcomes are admissible (near_ties)"]


def plan(tier):
    if tier == "thorough":
        return {"shards": 16, "cases": 250000, "shard_timeout_s": 3000, "shard_budget_s": 1500}
    return {"shards": 16, "cases": 16000, "shard_timeout_s": 600, "shard_budget_s": 100}


def floors(tier):
    return {"distinct_nontrivial": 2000, "readings_compared": 500000, "classes_seen": len(CLASSES)}


def gen_case(rng, tier, idx):
    return numeric.gen_price_case(rng, tier, CLASSES)


def run_case(case):
    return numeric.run_price_case(case, ID)
