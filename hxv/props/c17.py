"""C17 - movement, candle-shape and pattern predicates mean what they document.

Monitors: direct-call recorder comparing every movement function at every index >= 1 and default index
with one-line reference predicates (admissible sets where the documentation leaves a choice); candle
geometry against its formulas; pattern detectors on constructed witnesses / single-clause
counter-witnesses with >= 2x margins; exact invariance under *2^k (all predicates, dyadic lists) and
under constant shifts (patterns, dyadic lists).
"""
from __future__ import annotations

from hxv import boot
from hxv.core import same, short
from hxv.ref import movement as R
from hxv.ref import patterns as P

boot.boot()
from hexital import Candle  # noqa: E402
from hexital.analysis import PATTERN_MAP, movement  # noqa: E402

ID = "C17"
LEVEL = "exploration"
CASE_TIMEOUT = 120
RULE = ("three case kinds. movement: fabricated reading lists (gaps, ties, absent keys) - every function x length grid x every index >= 1 "
        "and the default index against the reference predicate. geometry: random well-formed candles against the formulas. pattern: history of "
        "11-25 ordinary candles + constructed witness (every clause met with >= 2x margin => must be reported) or counter-witness (exactly one "
        "clause broken by >= 2x => must not be), evaluated at the explicit index, the negative index and the default index, then again after "
        "*2^k and after a constant shift (dyadic prices, so both are exact). non-trivial: movement list with >= 1 missing reading and >= 1 tie; "
        "every pattern case. distinct: case digest.")
ASSUMPTIONS = ["where docstring and property disagree on whether `length` counts the current candle (value_range, highestbar, lowestbar) both windows are admissible",
               "cross(): strict crossover|crossunder must be reported, and nothing may be reported that is not a cross even with a non-strict 'one candle earlier'",
               "highestbar/lowestbar with no reading in the window: 0 or None"]
LENGTHS = [1, 2, 3, 4, 7, 30]


def plan(tier):
    if tier == "thorough":
        return {"shards": 16, "cases": 200000, "shard_timeout_s": 3000, "shard_budget_s": 1500}
    return {"shards": 16, "cases": 8000, "shard_timeout_s": 600, "shard_budget_s": 100}


def floors(tier):
    return {"distinct_nontrivial": 1000, "movement_evaluations": 200000, "geometry_candles": 5000, "pattern_verdicts": 3000,
            "pattern_variants_seen": 16, "invariance_checks": 20000, "merged_geometry_reads": 2000}


def gen_case(rng, tier, idx):
    kind = rng.choice(["movement", "movement", "movement", "pattern", "pattern", "pattern", "geometry", "geometry_merged"])
    if kind == "movement":
        n = rng.randint(2, 40)
        level = rng.choice([0, 10, 100])
        xs, ys = [], []
        for i in range(n):
            xs.append(None if rng.random() < 0.15 else rng.choice([level, level + 1, level - 1, level + rng.randint(-4, 4) / 4]))
            ys.append(None if rng.random() < 0.1 else rng.choice([level, level + rng.randint(-3, 3) / 2]))
        absent = [i for i in range(n) if rng.random() < 0.05]
        boolean = rng.random() < 0.1
        if boolean:
            # a column of flags (what pattern wrappers and STDEVTHRES write): False is a reading like any other, not "no reading"
            xs = [rng.choice([True, False, False, None]) for _ in range(n)]
        attr = (not boolean) and rng.random() < 0.25
        if attr:
            # the column is a candle ATTRIBUTE (volume) instead of an indicator reading: always present, and exactly 0 on dead-market
            # candles - 0 is a reading like any other (round 9, S20-A)
            xs = [abs(v) if v is not None else rng.choice([0, level]) for v in xs]
            absent = []
        return {"kind": kind, "xs": xs, "ys": ys, "absent": absent, "k": rng.choice([-3, 1, 4, 10]), "boolean": boolean, "attr": attr}
    if kind == "geometry":
        cs = []
        for _ in range(30):
            o = round(rng.uniform(1, 200), 2)
            c = round(o + rng.choice([0, 0, rng.uniform(-3, 3)]), 2)
            h = round(max(o, c) + rng.choice([0, rng.uniform(0, 2)]), 2)
            l = round(min(o, c) - rng.choice([0, rng.uniform(0, 2)]), 2)
            cs.append((o, h, max(l, 0.01), c))
        return {"kind": kind, "candles": [(o, h, min(l, o, c), c) for o, h, l, c in cs]}
    if kind == "geometry_merged":
        from hxv.gen import streams
        n = rng.randint(20, 70)
        return {"kind": kind, "rows": streams.make_rows(rng, n, rng.choice(["walk", "spiky", "flat_runs"]), 60), "tf": rng.choice(["T2", "T3", "T5", "T15"]),
                "peek": rng.random() < 0.8}
    pat = rng.choice(list(P.VARIANTS))
    var = rng.choice(P.VARIANTS[pat]) if rng.random() < 0.7 else "witness"
    made = None
    for _ in range(8):
        made = P.make(rng, pat, var)
        if made is not None:
            break
    if made is None:
        return {"kind": "skipped", "pattern": pat, "variant": var}
    cs, expect, regime = made
    return {"kind": kind, "pattern": pat, "variant": var, "candles": cs, "expect": expect, "regime": regime, "k": rng.choice([-16, -14, -4, -1, 3, 8, 20]),
            "shift": rng.choice([-16.0, 7.5, 1000.25, 65536.0]), "tail": rng.randint(0, 3)}


def mk(cs, extra=None):
    out = [Candle(o, h, l, c, 100) for o, h, l, c in cs]
    return out


def run_movement(case, stats, V):
    xs, ys, n = case["xs"], case["ys"], len(case["xs"])
    cs = [Candle(10, 11, 9, 10, 1) for _ in range(n)]
    for i, c in enumerate(cs):
        if i in case["absent"]:
            continue
        c.indicators = {"A": xs[i], "B": ys[i]}
    A = "volume" if case.get("attr") else "A"
    if case.get("attr"):
        stats["attribute_columns"] = stats.get("attribute_columns", 0) + 1
        for i, c in enumerate(cs):
            c.volume = xs[i]
    X = [None if i in case["absent"] else xs[i] for i in range(n)]
    Y = [None if i in case["absent"] else ys[i] for i in range(n)]
    f2 = 2.0 ** case["k"]
    cs2 = [Candle(10, 11, 9, 10, 1) for _ in range(n)]
    for i, c in enumerate(cs2):
        if i not in case["absent"]:
            c.indicators = {"A": None if xs[i] is None else xs[i] * f2, "B": None if ys[i] is None else ys[i] * f2}
    if case.get("attr"):
        for i, c in enumerate(cs2):
            c.volume = xs[i] * f2
    one = [("rising", movement.rising, R.rising), ("falling", movement.falling, R.falling), ("mean_rising", movement.mean_rising, R.mean_rising),
           ("mean_falling", movement.mean_falling, R.mean_falling), ("highest", movement.highest, R.highest), ("lowest", movement.lowest, R.lowest),
           ("highestbar", movement.highestbar, R.highestbar), ("lowestbar", movement.lowestbar, R.lowestbar), ("value_range", movement.value_range, R.value_range)]
    two = [("crossover", movement.crossover, R.crossover), ("crossunder", movement.crossunder, R.crossunder), ("cross", movement.cross, R.cross)]
    if case.get("boolean"):
        stats["boolean_columns"] = stats.get("boolean_columns", 0) + 1
        for i in list(range(1, n)) + [None]:
            ii = n - 1 if i is None else i
            ikw = {} if i is None else {"index": i}
            if ii < 1:
                continue
            for ln in LENGTHS:
                for name, f, ref in (("highest", movement.highest, R.highest), ("lowest", movement.lowest, R.lowest)):
                    got = f(cs, A, ln, **ikw)
                    w_ = [v for v in X[max(0, ii - ln):ii + 1] if v is not None]  # the current candle and the `length` before it
                    adm = {(max(w_) if name == "highest" else min(w_)) if w_ else None}
                    stats["movement_evaluations"] = stats.get("movement_evaluations", 0) + 1
                    if not any(got is w or (got == w and type(got) is type(w)) for w in adm):
                        V("reference-predicate", f"C17|{name}|boolean-column", f"{name}(A, length={ln}) at {i} of {n} on a column of flags: got {got!r}, documented {sorted(adm, key=repr)}; window {X[max(0, ii - ln - 1):ii + 1]}")
        return any(v is None for v in X)
    for i in list(range(1, n)) + [None]:
        ii = n - 1 if i is None else i
        ikw = {} if i is None else {"index": i}
        if ii < 1:
            continue
        for name, f, ref in (("above", movement.above, R.above), ("below", movement.below, R.below)):
            got = f(cs, A, "B", **ikw)
            stats["movement_evaluations"] = stats.get("movement_evaluations", 0) + 1
            if not any(same(got, w) for w in ref(X, Y, ii)):
                V("reference-predicate", f"C17|{name}", f"{name}(A,B) at {i} of {n}: got {got!r}, documented {ref(X, Y, ii)}; A={X[ii]} B={Y[ii]}")
        for ln in LENGTHS:
            for name, f, ref in one:
                got = f(cs, A, ln, **ikw)
                adm = ref(X, ii, ln)
                stats["movement_evaluations"] = stats.get("movement_evaluations", 0) + 1
                if not any(same(got, w) for w in adm):
                    V("reference-predicate", f"C17|{name}", f"{name}(A, length={ln}) at {i} of {n}: got {got!r}, documented {sorted(adm, key=repr)}; window {X[max(0, ii - ln - 1):ii + 1]}")
                g2 = f(cs2, A, ln, **ikw)
                want2 = got * f2 if (name in ("highest", "lowest", "value_range") and isinstance(got, (int, float)) and not isinstance(got, bool)) else got
                stats["invariance_checks"] = stats.get("invariance_checks", 0) + 1
                if not same(g2, want2) and not (isinstance(g2, (int, float)) and isinstance(want2, (int, float)) and g2 == want2):
                    V("scale-invariance", f"C17|scale|{name}", f"{name}(A, length={ln}) at {i}: {got!r} but {g2!r} after multiplying every reading by 2^{case['k']}")
            for name, f, ref in two:
                got = f(cs, A, "B", ln, **ikw)
                adm = ref(X, Y, ii, ln)
                stats["movement_evaluations"] = stats.get("movement_evaluations", 0) + 1
                if not any(same(got, w) for w in adm):
                    V("reference-predicate", f"C17|{name}", f"{name}(A,B,length={ln}) at {i} of {n}: got {got!r}, documented {adm}; A={X[max(0, ii - ln):ii + 1]} B={Y[max(0, ii - ln):ii + 1]}")
    ties = len(set(v for v in X if v is not None)) < sum(1 for v in X if v is not None)
    return any(v is None for v in X) and ties


def run_geometry(case, stats, V):
    for o, h, l, c in case["candles"]:
        cd = Candle(o, h, l, c, 1)
        stats["geometry_candles"] = stats.get("geometry_candles", 0) + 1
        want = {"realbody": abs(o - c), "shadow_upper": h - max(o, c), "shadow_lower": min(o, c) - l, "high_low": h - l,
                "positive": c > o, "negative": c < o}
        for k, w in want.items():
            g = getattr(cd, k)
            if not same(g, w) and not (isinstance(w, float) and abs(g - w) <= 1e-12 * max(1.0, abs(w))):
                V("geometry-formula", f"C17|geometry|{k}", f"Candle({o},{h},{l},{c}).{k} = {g!r}, formula gives {w!r}")
        if movement.positive(cd) != (c > o) or movement.negative(cd) != (c < o) or movement.positive([cd]) != (c > o) or movement.negative([cd], index=0) != (c < o):
            V("geometry-formula", "C17|geometry|positive-negative-fn", f"movement.positive/negative disagree with close vs open for ({o},{h},{l},{c})")
    return True


def run_geometry_merged(case, stats, V):
    """geometry of candles that are collapsed buckets, read between the appends that keep merging into them"""
    from hxv.core import rows_to_candles
    from hexital.indicators import HighLowAverage
    rows = case["rows"]
    ind = HighLowAverage(candles=rows_to_candles(rows[:1]), timeframe=case["tf"])
    for r in rows_to_candles(rows[1:]):
        ind.append(r)
        for cd in (ind.candles if case["peek"] else ind.candles[-1:]):
            d = vars(cd)
            o, h, l, c = d["open"], d["high"], d["low"], d["close"]
            stats["geometry_candles"] = stats.get("geometry_candles", 0) + 1
            stats["merged_geometry_reads"] = stats.get("merged_geometry_reads", 0) + 1
            want = {"realbody": abs(o - c), "shadow_upper": h - max(o, c), "shadow_lower": min(o, c) - l, "high_low": h - l, "positive": c > o, "negative": c < o}
            for k, w in want.items():
                g = getattr(cd, k)
                if not same(g, w) and not (isinstance(w, float) and abs(g - w) <= 1e-12 * max(1.0, abs(w))):
                    V("geometry-formula", f"C17|geometry-after-merge|{k}", f"bucket {d['timestamp']} ({o},{h},{l},{c}).{k} = {g!r}, formula gives {w!r} (after merges, geometry read between appends)")
                    return True
    return True


def run_pattern(case, stats, V):
    pat, var, expect = case["pattern"], case["variant"], case["expect"]
    f = PATTERN_MAP[pat]
    base = case["candles"]
    i = len(base) - 1
    # later candles must not matter for the explicit index; default index is evaluated without the tail
    tail = [base[-2]] * case["tail"]
    stats.setdefault("pattern_variants_seen", set()).add(f"{pat}:{var}")
    stats.setdefault("pattern_regimes", {})[case.get("regime", "uniform")] = 1
    for label, cs in (("as-built", base), (f"x2^{case['k']}", [tuple(v * 2.0 ** case["k"] for v in c) for c in base]),
                      (f"shift{case['shift']:+}", [tuple(v + case["shift"] for v in c) for c in base])):
        L = mk(cs)
        Lt = mk(cs + ([tuple(v for v in cs[-2])] * case["tail"]))
        res = {"index": f(Lt, index=i), "negative-index": f(Lt, index=i - len(Lt)), "default": f(L)}
        stats["pattern_verdicts"] = stats.get("pattern_verdicts", 0) + 3
        if label != "as-built":
            stats["invariance_checks"] = stats.get("invariance_checks", 0) + 3
        for how, got in res.items():
            if bool(got) != expect:
                mon = "witness" if var == "witness" else "counter-witness"
                sig = f"C17|pattern|{pat}|{var}" if label == "as-built" else f"C17|pattern-invariance|{pat}|{'scale' if label.startswith('x') else 'shift'}"
                V(mon if label == "as-built" else "scale-shift-invariance", sig,
                  f"{pat} [{var}] {label} via {how}: reported {got!r}, expected {expect}; last two candles {short(cs[-2:], 300)}")
                break
    return True


def run_case(case):
    stats = {"kinds": {case["kind"]: 1}}
    viol = []

    def V(monitor, sig, detail):
        if len(viol) < 4 and sig not in [v["sig"] for v in viol]:
            viol.append({"monitor": monitor, "sig": sig, "detail": detail})

    if case["kind"] == "skipped":
        return {"violations": [], "nontrivial": False, "stats": {"pattern_constructions_dropped_by_validator": 1}}
    try:
        nontrivial = {"movement": run_movement, "geometry": run_geometry, "pattern": run_pattern, "geometry_merged": run_geometry_merged}[case["kind"]](case, stats, V)
    except Exception as e:
        import traceback
        V("exception", f"C17|raises|{case['kind']}|{type(e).__name__}", (repr(e) + traceback.format_exc()[-500:])[:900])
        nontrivial = True
    return {"violations": viol, "nontrivial": bool(nontrivial), "stats": stats,
            "sample": {k: (v if k != "candles" else v[-3:]) for k, v in case.items()}}
