"""C03 - timeframe collapsing equals right-closed, right-labelled OHLCV resampling.

Monitors: state recorder after *every* manager operation, compared online with the 15-line
reference resampler over the rows consumed so far; structural invariants (strictly increasing
labels on the timeframe grid, volume conservation) evaluated on the same snapshots; coverage probe
on candle_manager.py showing which arms of the collapse branch ran.
"""
from __future__ import annotations

from datetime import timedelta

from hxv import boot
from hxv.core import EPOCH, row_to_candle, rows_to_candles, short, ts_of
from hxv.drive import encode_chunk
from hxv.gen import schedules, streams
from hxv.gen.timeframes import pick_timeframe
from hxv.instr.cover import LineCoverage, branch_arms
from hxv.ref.resample import resample, tf_seconds

boot.boot()
from hexital import Hexital  # noqa: E402
from hexital.core.candle_manager import CandleManager  # noqa: E402
from hexital.indicators import SMA, HighLowAverage  # noqa: E402

ID = "C03"
LEVEL = "exploration"
CASE_TIMEOUT = 60
FILL = False
CM = "hexital/core/candle_manager.py"
RULE = ("case = (stream with duplicate/jittered/gapped second-resolution timestamps, timeframe S/T/H/D x n, entry point "
        "CandleManager | Indicator(timeframe) | Hexital member timeframe | Hexital-level timeframe, append schedule, 0-3 extra "
        "collapse passes after each step). After every operation the manager's candles are compared with the reference "
        "resampler over the rows consumed so far. non-trivial: >= 2 buckets and >= 1 merge (fewer buckets than rows). "
        "distinct: case digest.")
ASSUMPTIONS = ["process TZ=UTC here (zone independence is C18)", "timestamps are naive, second resolution, non-decreasing"]
_cov = None
_arms = None


def plan(tier):
    if tier == "thorough":
        return {"shards": 16, "cases": 120000, "shard_timeout_s": 3000, "shard_budget_s": 1500}
    return {"shards": 16, "cases": 8000, "shard_timeout_s": 600, "shard_budget_s": 100}


def floors(tier):
    return {"distinct_nontrivial": 500, "snapshots_compared": 5000, "max:arms_executed_min": 1, "entries_seen": 5}


def gen_case(rng, tier, idx, fill=False):
    tf, tf_s, step = pick_timeframe(rng)
    n = rng.randint(2, 120 if tier == "quick" else 300)
    if rng.random() < 0.1:
        n = rng.randint(1, 6)
    mode = rng.choice(["regular", "jitter", "dups", "gaps", "gaps"] if not fill else ["gaps", "gaps", "gaps", "gaps", "jitter", "dups"])
    rows = streams.make_rows(rng, n, rng.choice(["walk", "walk", "flat_runs", "zero_vol", "spiky"]), step, mode, tf_s,
                             max_gap_buckets=12 if fill else 60)
    dead = fill and len(rows) >= 4 and rng.random() < 0.3
    if dead:
        # dead-market stretches: REAL candles that are flat at the previous close with volume 0 - exactly the shape of an inserted fill
        # candle. A bucket made only of them is still a real bucket; gaps before and after it must be filled all the same (round 9, S10-A)
        per = max(1, tf_s // step)
        for _ in range(rng.randint(1, 3)):
            k = rng.randint(1, len(rows) - 1)
            for r in rows[k:k + rng.randint(1, 2 * per + 1)]:
                c = rows[k - 1][4]
                r[1] = r[2] = r[3] = r[4] = c
                r[5] = 0
    if rng.random() < 0.08:
        streams.add_subsecond(rng, rows)  # bucketing is at second resolution: sub-second parts must simply be dropped, for every candle alike
    aware = None
    if rng.random() < 0.06:
        # timezone-aware timestamps (one fixed offset per stream): buckets live on that offset's own wall clock
        aware = rng.choice(["+00:00", "+05:30", "-03:00", "+05:45", "+01:00"])
        for r in rows:
            r[0] = r[0] + aware
    long_gap = False
    if fill and len(rows) >= 16 and rng.random() < 0.03:
        # one very long gap (more than a thousand buckets) in a short stream: still cheap, and contiguity must hold across it
        from datetime import datetime, timedelta
        long_gap = True
        n = rng.randint(6, 16)
        rows = rows[:n]
        k = rng.randint(2, n - 2)
        shift = timedelta(seconds=tf_s * rng.randint(1001, 1400) + rng.choice([0, 1, step]))
        for r in rows[k:]:
            r[0] = (datetime.fromisoformat(r[0]) + shift).isoformat()
    sch = schedules.rand_schedule(rng, n, bucket=max(1, tf_s // step), encs=("candle", "dict", "list"))
    sch["precalc"] = False
    lifespan = None
    entry = rng.choice(["manager", "manager", "indicator", "hexital_member", "hexital_level", "hexital_members2"])
    if fill and not long_gap and rng.random() < 0.15:
        # a lifespan on top of filling: the retained candles must still be the (contiguous) tail of the reference
        lifespan = tf_s * rng.randint(8, 20) + rng.choice([0, 1, tf_s // 2])
        entry = rng.choice(["manager", "indicator", "hexital_level"])  # (member timeframes + lifespan at construction: recorded C08 finding)
    long_vol = rng.random() < 0.06
    if long_vol:
        # volumes carrying many decimals (fractional lots): a bucket's volume is still exactly the running sum of its candles' volumes
        for r in rows:
            r[5] = r[5] * 0.001234567891234
    return {"rows": rows, "tf": tf, "entry": entry, "lifespan_s": lifespan, "long_vol": long_vol,
            "schedule": sch, "extra_passes": rng.choice([0, 0, 0, 1, 2, 3]), "ts_mode": mode if not long_gap else "long_gap", "dead": dead, "fill": fill, "tf_enum": rng.random() < 0.25, "aware": aware}


def coarser(tf):
    s_ = tf_seconds(tf) * 3
    return f"S{s_}" if s_ % 60 else (f"T{s_ // 60}" if s_ % 3600 else (f"H{s_ // 3600}" if s_ % 86400 else f"D{s_ // 86400}"))


def tf_arg(tf, as_enum):
    """the same timeframe as the TimeFrame enum member when one exists (all three spellings are documented inputs)"""
    if as_enum:
        from hexital import TimeFrame
        for m in TimeFrame:
            if m.value == tf.upper():
                return m
    return tf


class Target:
    def __init__(self, entry, tf, fill, candles, as_enum=False, lifespan=None):
        self.entry = entry
        self.extra = []
        lk = {"candles_lifespan": timedelta(seconds=lifespan)} if lifespan else {}
        tf_key = tf
        tf = tf_arg(tf, as_enum)
        if entry == "manager":
            self.obj = CandleManager(candles, timeframe=tf, timeframe_fill=fill, **lk)
            self.mgr = self.obj
        elif entry == "indicator":
            self.obj = HighLowAverage(candles=candles, timeframe=tf, timeframe_fill=fill, **lk)
            self.mgr = self.obj.candle_manager
        elif entry == "hexital_member":
            self.obj = Hexital("t", candles, [SMA(period=3, timeframe=tf)], timeframe_fill=fill)
            self.mgr = self.obj._candles[tf_key.upper()]
        elif entry == "hexital_members2":
            # two new member timeframes created in the same call over a non-empty base list: each must get its own candles
            tf2 = coarser(tf_key)
            self.obj = Hexital("t", candles, [SMA(period=3, timeframe=tf), SMA(period=2, timeframe=tf2)], timeframe_fill=fill)
            self.mgr = self.obj._candles[tf_key.upper()]
            self.extra = [(tf2, self.obj._candles[tf2.upper()])]
        elif entry == "hexital_level":
            self.obj = Hexital("t", candles, [SMA(period=3)], timeframe=tf, timeframe_fill=fill, **lk)
            self.mgr = self.obj._candles["default"]
        else:
            raise ValueError(entry)

    def candles(self):
        if self.entry in ("hexital_member", "hexital_members2"):
            return self.obj.candles(self.mgr.name)
        if self.entry == "hexital_level":
            return self.obj.candles()
        return self.mgr.candles


def got_rows(candles):
    return [(vars(c).get("timestamp"), c.open, c.high, c.low, c.close, c.volume) for c in candles]


def structural(got, s):
    """Invariants that must hold whatever the reference says."""
    for i, r in enumerate(got):
        d = r[0] - (EPOCH if r[0].tzinfo is None else EPOCH.replace(tzinfo=r[0].tzinfo))
        if (d.days * 86400 + d.seconds) % s or d.microseconds:
            return "label-off-grid", i
        if i and not got[i - 1][0] < r[0]:
            return "not-strictly-increasing", i
    return None


def compare(got, want):
    if len(got) != len(want):
        return "bucket-count", min(len(got), len(want))
    for i, (g, w) in enumerate(zip(got, want)):
        if g[0] != w[0]:
            return "label", i
        if g[1:5] != w[1:5]:
            return "ohlc", i
        if g[5] != w[5]:
            return "volume", i
    return None


def run_case(case):
    global _cov, _arms
    if _cov is None:
        _cov = LineCoverage([CM])
        _cov.__enter__()
        _arms = branch_arms(CM, "collapse_candles")
    rows, tf, sch, entry, fill = case["rows"], case["tf"], case["schedule"], case["entry"], case.get("fill", False)
    s = tf_seconds(tf)
    drows = [(ts_of(r[0]), *r[1:]) for r in rows]
    stats = {"entries_seen": [entry], "ts_modes": [case["ts_mode"]], "tf_units": [tf[0].upper()]}
    if case.get("long_vol"):
        stats["long_decimal_volume_streams"] = 1
    if case.get("aware"):
        stats["tz_aware_streams"] = 1
    viol = []
    prop = "C12" if fill else "C03"

    def check(t, consumed, where):
        for tf2, mgr2 in t.extra:
            g2 = got_rows(mgr2.candles)
            w2 = resample(drows[:consumed], tf2, fill)
            stats["snapshots_compared"] = stats.get("snapshots_compared", 0) + 1
            d2 = compare(g2, w2)
            if d2:
                viol.append({"monitor": "online-resample-reference", "sig": f"{prop}|{d2[0]}|{entry}|second-member-timeframe",
                             "detail": f"{where} (rows consumed {consumed}, second member timeframe {tf2}): {d2[0]} at bucket {d2[1]}: got {short(g2[max(0, d2[1] - 1):d2[1] + 2], 400)} want {short(w2[max(0, d2[1] - 1):d2[1] + 2], 400)}"})
                return False
        got = got_rows(t.candles())
        stats["snapshots_compared"] = stats.get("snapshots_compared", 0) + 1
        st = structural(got, s)
        if st:
            viol.append({"monitor": "structural-invariant", "sig": f"{prop}|{st[0]}|{entry}",
                         "detail": f"{where}: {st[0]} at bucket {st[1]}: {short(got[max(0, st[1] - 1):st[1] + 2], 400)}"})
            return False
        tot_g, tot_r = sum(g[5] for g in got), sum(r[5] for r in drows[:consumed])
        if not case.get("lifespan_s") and (abs(tot_g - tot_r) > 1e-12 * max(1.0, abs(tot_r)) if case.get("long_vol") else tot_g != tot_r):
            viol.append({"monitor": "volume-conservation", "sig": f"{prop}|volume-not-conserved|{entry}",
                         "detail": f"{where}: sum(volume) buckets={sum(g[5] for g in got)} rows={sum(r[5] for r in drows[:consumed])}"})
            return False
        want = resample(drows[:consumed], tf, fill)
        if case.get("lifespan_s"):
            # which candles are retained is C15's business; here: what is retained is the tail of the filled reference
            if len(got) > len(want) or (want and not got):
                viol.append({"monitor": "online-resample-reference", "sig": f"{prop}|bucket-count|{entry}|lifespan", "detail": f"{where}: {len(got)} candles retained, reference has {len(want)}"})
                return False
            want = want[len(want) - len(got):]
        d = compare(got, want)
        if d:
            i = d[1]
            viol.append({"monitor": "online-resample-reference", "sig": f"{prop}|{d[0]}|{entry}",
                         "detail": f"{where} (rows consumed {consumed}, tf {tf}): {d[0]} at bucket {i}: got {short(got[max(0, i - 1):i + 2], 500)} want {short(want[max(0, i - 1):i + 2], 500)}"})
            return False
        if fill:
            step = timedelta(seconds=s)
            real = {w[0] for w in resample(drows[:consumed], tf, False)}
            for i in range(1, len(got)):
                if got[i][0] - got[i - 1][0] != step:
                    viol.append({"monitor": "contiguity", "sig": f"{prop}|not-contiguous|{entry}", "detail": f"{where}: {got[i - 1][0]} -> {got[i][0]}"})
                    return False
                if got[i][0] not in real:
                    stats["fill_candles_checked"] = stats.get("fill_candles_checked", 0) + 1
                    pc = got[i - 1][4]
                    if got[i][1:] != (pc, pc, pc, pc, 0):
                        viol.append({"monitor": "fill-shape", "sig": f"{prop}|fill-candle-shape|{entry}", "detail": f"{where}: fill candle {got[i]} after close {pc}"})
                        return False
        return True

    pre = sch["preload"]
    try:
        t = Target(entry, tf, fill, rows_to_candles(rows[:pre]), case.get("tf_enum", False), case.get("lifespan_s"))
        if case.get("lifespan_s"):
            stats["lifespan_cases"] = 1
        if case.get("tf_enum"):
            stats["timeframe_given_as_enum"] = 1
        ok = check(t, pre, "construction")
        pos = pre
        for size in sch["chunks"]:
            if not ok:
                break
            t.obj.append(encode_chunk(rows, pos, size, sch["enc"]))
            pos += size
            ok = check(t, pos, f"append#{pos}")
            for k in range(case["extra_passes"] if ok else 0):
                t.mgr.collapse_candles()
                stats["extra_passes"] = stats.get("extra_passes", 0) + 1
                ok = check(t, pos, f"extra-pass{k + 1}@{pos}")
                if not ok:
                    break
    except Exception as e:
        viol.append({"monitor": "exception", "sig": f"{prop}|raises|{entry}|{type(e).__name__}", "detail": f"{e!r}"[:600]})
    if case.get("dead"):
        stats["dead_market_streams"] = stats.get("dead_market_streams", 0) + 1
    if case.get("aware") and not viol:
        # the same instants expressed in another offset, collapsed in the same process: each stream lives on its own wall clock
        from datetime import timedelta as _td, timezone as _tz
        for off in (0, 330, -180, 345):
            tz2 = _tz(_td(minutes=off))
            d2 = [(r[0].astimezone(tz2), *r[1:]) for r in drows]
            try:
                m2 = CandleManager([row_to_candle(r) for r in d2], timeframe=tf, timeframe_fill=fill)
                g2 = got_rows(m2.candles)
            except Exception as e:
                viol.append({"monitor": "exception", "sig": f"{prop}|raises|aware-twin|{type(e).__name__}", "detail": f"same instants at UTC offset {off} min: {e!r}"[:400]})
                break
            w2 = resample(d2, tf, fill)
            stats["aware_twin_streams"] = stats.get("aware_twin_streams", 0) + 1
            dd = compare(g2, w2)
            if dd:
                viol.append({"monitor": "online-resample-reference", "sig": f"{prop}|{dd[0]}|aware-twin",
                             "detail": f"same instants re-expressed at UTC offset {off} min, tf {tf}: {dd[0]} at bucket {dd[1]}: got {short(g2[max(0, dd[1] - 1):dd[1] + 2], 300)} want {short(w2[max(0, dd[1] - 1):dd[1] + 2], 300)}"})
                break
    want = resample(drows, tf, False)
    nontrivial = len(want) >= 2 and len(want) < len(rows)
    if fill:
        nontrivial = nontrivial and len(resample(drows, tf, True)) > len(want)
    return {"violations": viol, "nontrivial": nontrivial, "stats": stats,
            "sample": {"tf": tf, "entry": entry, "schedule": sch, "extra_passes": case["extra_passes"], "ts_mode": case["ts_mode"],
                       "rows_head": rows[:6], "reference_head": want[:3], "n_rows": len(rows), "n_buckets": len(want)}}


def shard_finish():
    if _cov is None:
        return {}
    hit = _cov.lines[CM]
    arms = [a for a in (_arms or []) if a in hit]
    out = {"collapse_arms_executed": [f"line{a}" for a in arms], "collapse_arms_found": [f"line{a}" for a in (_arms or [])],
           "candle_manager_lines_executed": [f"L{n}" for n in hit],
           # floor helper: 1 when at least 6 arms (all but the raise) ran, or when the arm structure could not be located
           "max:arms_executed_min": 1 if (not _arms or len(arms) >= min(6, len(_arms) - 1)) else 0}
    return out
