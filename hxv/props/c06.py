"""C06 - momentum, oscillator and volume indicators match their definitions.
Engine and oracle: hxv/props/numeric.py (reference definitions over the raw candles, propagated rounding
budget, warm-up intervals)."""
from hxv.gen import configs
from hxv.props import numeric

ID = "C06"
LEVEL = "exploration"
CASE_TIMEOUT = 60
CLASSES = configs.MOM_CLASSES
RULE = ("case = (one of RSI, MACD, ROC, STOCH, TSI, Aroon, ADX, OBV, VWAP with random periods / input / round_value in {2..10}, stream of 40-300 "
        "candles from all families incl. flat, monotone, zero-volume and equal-volume ones, batch or an append schedule, base or collapsing "
        "timeframe). The recorded output column is compared with the reference definition computed from the raw candles within 4 x the propagated "
        "rounding bound; first readings must appear at the documented warm-up index. non-trivial: >= 10 readings compared and <= 20 % of the points "
        "unverifiable. distinct: case digest.")
ASSUMPTIONS = ["numeric agreement is certified up to the stated rounding budget, whose tightness is reported (max err/bound)",
               "points whose budget exceeds 1.0 on a 0-100 scale (quotients with a denominator close to zero) are not decided (unverifiable_points)",
               "undefined quotients (STOCH zero range, TSI/ADX zero denominator, VWAP zero cumulative volume) admit any finite value; RSI with no loss since the seed is 100",
               "ADX: directional movement of the first candle may be 0 or undefined (both trajectories admissible)"]


def plan(tier):
    if tier == "thorough":
        return {"shards": 16, "cases": 250000, "shard_timeout_s": 3000, "shard_budget_s": 1500}
    return {"shards": 16, "cases": 16000, "shard_timeout_s": 600, "shard_budget_s": 100}


def floors(tier):
    return {"distinct_nontrivial": 2000, "readings_compared": 500000, "classes_seen": len(CLASSES)}


def gen_case(rng, tier, idx):
    return numeric.gen_price_case(rng, tier, CLASSES)


def run_case(case):
    return numeric.run_price_case(case, ID)
