"""C11 - Heikin-Ashi conversion follows its recurrence under every append schedule.

Monitors: state recorder after every append compared online with the four-line HA recurrence over the
raw (or reference-resampled) rows consumed so far; clean_values == raw values and a tag on every
candle; a class-level hook on HeikinAshi.convert_candle that records every conversion and flags a
conversion of an already converted (tagged) candle; a riding EMA(3) whose readings must equal the
reference EMA over the HA closes.
"""
from __future__ import annotations

from hxv import boot
from hxv.core import rows_to_candles, short, ts_of
from hxv.drive import encode_chunk
from hxv.gen import schedules, streams
from hxv.gen.timeframes import pick_timeframe
from hxv.ref.heikin import ema_rounded, heikin_ashi
from hxv.ref.resample import resample

boot.boot()
from hexital import Hexital  # noqa: E402
from hexital.candlesticks.heikinashi import HeikinAshi  # noqa: E402
from hexital.indicators import EMA, SMA  # noqa: E402

ID = "C11"
LEVEL = "exploration"
CASE_TIMEOUT = 60
RULE = ("case = (stream, optional collapsing timeframe, entry: standalone EMA(3, candlestick_type=HA) | Hexital(candlestick_type=HA) "
        "with 1-2 members, optionally one on a coarser member timeframe; append schedule starting from 0, 1, 2 or more candles). "
        "After every append every candle list is compared with the HA recurrence over the (resampled) raw rows consumed so far. "
        "non-trivial: >= 2 appends, >= 3 HA candles, and the schedule starts from <= 2 candles or contains a merge. distinct: case digest.")
ASSUMPTIONS = ["with gap filling, 'the collapsed raw candles' are the collapsed AND filled raw candles (fill candles flat at the previous raw close), as a batch run produces them",
               "relative tolerance 1e-9 on OHLC (the recurrence is evaluated in the same order by both sides)"]
_hooked = False
_conv = {"calls": 0, "double": 0}


def _hook():
    global _hooked
    if _hooked:
        return
    orig = HeikinAshi.convert_candle

    def convert_candle(self, candle, candles, index):
        _conv["calls"] += 1
        if vars(candle).get("_tag"):
            _conv["double"] += 1
        return orig(self, candle, candles, index)

    HeikinAshi.convert_candle = convert_candle
    _hooked = True


def plan(tier):
    if tier == "thorough":
        return {"shards": 16, "cases": 80000, "shard_timeout_s": 3000, "shard_budget_s": 1500}
    return {"shards": 16, "cases": 8000, "shard_timeout_s": 600, "shard_budget_s": 100}


def floors(tier):
    return {"distinct_nontrivial": 300, "snapshots_compared": 5000, "convert_calls": 10000, "entries_seen": 3, "ema_readings_compared": 5000}


def gen_case(rng, tier, idx):
    entry = rng.choice(["indicator", "indicator", "hexital", "hexital_member_tf"])
    n = rng.randint(3, 90 if tier == "quick" else 250)
    if rng.random() < 0.5:
        tf, tf_s, step = pick_timeframe(rng)
        mode = rng.choice(["regular", "jitter", "dups", "gaps"])
    else:
        tf, tf_s, step, mode = None, None, 60, rng.choice(["regular", "dups"])
    rows = streams.make_rows(rng, n, rng.choice(["walk", "walk", "flat_runs", "spiky", "trend_up"]), step, mode, tf_s, max_gap_buckets=30)
    sch = schedules.rand_schedule(rng, n, bucket=(tf_s // step if tf_s else None), encs=("candle", "dict", "list"))
    sch["preload"] = rng.choice([0, 0, 1, 1, 2, 2, sch["preload"]])
    sch["chunks"] = schedules.rand_chunks(rng, n - sch["preload"], bucket=(tf_s // step if tf_s else None))
    member_tf = None
    if entry == "hexital_member_tf":
        unit = tf_s or step
        s = unit * rng.choice([2, 3, 4])
        member_tf = f"S{s}" if s % 60 else (f"T{s // 60}" if s % 3600 else f"H{s // 3600}")
    lifespan = None
    if entry in ("indicator", "hexital") and rng.random() < 0.15 and n >= 30:
        # a lifespan must not change what the retained candles look like: >= 6 buckets stay, so the open bucket keeps its predecessor
        unit = tf_s or step
        lifespan = rng.randint(6, 12) * unit + rng.choice([0, 1, unit // 2])
        rows = streams.make_rows(rng, n, "walk", step, "regular", tf_s)
        sch["preload"] = rng.choice([0, 1, n // 2, n - 5])
        sch["chunks"] = schedules.rand_chunks(rng, n - sch["preload"], style=rng.choice(["singles", "random", "two"]))
    # gap filling under HA: fill candles are flat at the previous RAW close and are then converted like any other candle
    fill = lifespan is None and (tf is not None or member_tf is not None) and rng.random() < 0.3
    if entry == "hexital_member_tf" and tf is not None:
        fill = False  # Hexital timeframe + fill + member timeframe + candles at construction is the recorded C08 finding ('filled')
    if fill and mode != "gaps" and tf is not None and rng.random() < 0.7:
        rows = streams.make_rows(rng, n, rng.choice(["walk", "spiky"]), step, "gaps", tf_s, max_gap_buckets=12)
    return {"rows": rows, "tf": tf, "entry": entry, "member_tf": member_tf, "schedule": sch, "lifespan_s": lifespan, "fill": fill}


def ohlc_close(a, b):
    return all(abs(x - y) <= 1e-9 * max(1.0, abs(y)) for x, y in zip(a, b))


def run_case(case):
    _hook()
    rows, tf, sch, entry = case["rows"], case["tf"], case["schedule"], case["entry"]
    drows = [(ts_of(r[0]), *r[1:]) for r in rows]
    stats = {"entries_seen": [entry], "tfkinds": {"collapsing" if tf else "base": 1}, "preloads": [f"pre{min(sch['preload'], 3)}"]}
    viol = []
    c0 = dict(_conv)
    kw = {"timeframe": tf} if tf else {}
    fill = bool(case.get("fill"))
    if fill:
        kw["timeframe_fill"] = True
        stats["fill_cases"] = 1
    life = case.get("lifespan_s")
    if life:
        from datetime import timedelta
        kw["candles_lifespan"] = timedelta(seconds=life)
        stats["lifespan_cases"] = 1

    def lists(obj):
        if entry == "indicator":
            return [("", tf, obj.candles, obj.name)]
        out = [("default", tf, obj.candles(), "EMA_3")]
        if case["member_tf"]:
            out.append((case["member_tf"], case["member_tf"], obj.candles(case["member_tf"]), f"EMA_2_{case['member_tf']}"))
        return out

    def check(obj, consumed, where):
        for lname, ltf, cs, rname in lists(obj):
            base = resample(drows[:consumed], ltf, fill) if ltf else drows[:consumed]
            want = heikin_ashi(base)
            stats["snapshots_compared"] = stats.get("snapshots_compared", 0) + 1
            got = [(vars(c).get("timestamp"), c.open, c.high, c.low, c.close, c.volume) for c in cs]
            if life:
                # retained window: the tail of the reference (which candles are retained is C15's business)
                if not got or len(got) > len(want) or [g[0] for g in got] != [w[0] for w in want[len(want) - len(got):]]:
                    stats["lifespan_window_mismatch_left_to_C15"] = stats.get("lifespan_window_mismatch_left_to_C15", 0) + 1
                    return True
                base = base[len(base) - len(got):]
                want = want[len(want) - len(got):]
            if len(got) != len(want):
                viol.append({"monitor": "online-HA-reference", "sig": f"C11|candle-count|{entry}|{'member' if lname not in ('', 'default') else 'main'}",
                             "detail": f"{where} list {lname!r}: {len(got)} candles, reference {len(want)}"})
                return False
            for i, (g, w) in enumerate(zip(got, want)):
                if g[0] != w[0] or g[5] != w[5] or not ohlc_close(g[1:5], w[1:5]):
                    viol.append({"monitor": "online-HA-reference", "sig": f"C11|ha-values|{entry}|{'member' if lname not in ('', 'default') else 'main'}",
                                 "detail": f"{where} list {lname!r} candle {i}/{len(got)}: got {short(g, 200)} want {short(w, 200)} raw {short(base[i], 200)} tag={cs[i].tag!r}"})
                    return False
                cv = vars(cs[i]).get("clean_values") or {}
                raw = {"open": base[i][1], "high": base[i][2], "low": base[i][3], "close": base[i][4], "volume": base[i][5]}
                if any(cv.get(k) != v for k, v in raw.items()):
                    viol.append({"monitor": "raw-recoverable", "sig": f"C11|clean-values|{entry}",
                                 "detail": f"{where} list {lname!r} candle {i}: clean_values {short(cv, 200)} raw {raw}"})
                    return False
                if not vars(cs[i]).get("_tag"):
                    viol.append({"monitor": "tag", "sig": f"C11|untagged|{entry}", "detail": f"{where} list {lname!r} candle {i} has no tag"})
                    return False
            if life:
                continue  # readings under a lifespan are C15's business (look-back precondition)
            # readings on converted values
            closes = [w[4] for w in want]
            ref = ema_rounded(closes, 3 if rname.startswith("EMA_3") else 2)
            for i, c in enumerate(cs):
                r = vars(c)["indicators"].get(rname)
                stats["ema_readings_compared"] = stats.get("ema_readings_compared", 0) + 1
                if (r is None) != (ref[i] is None) or (r is not None and abs(r - ref[i]) > 3e-4 + 1e-9 * abs(ref[i])):
                    viol.append({"monitor": "riding-indicator", "sig": f"C11|reading-not-on-converted|{entry}|{'member' if lname not in ('', 'default') else 'main'}",
                                 "detail": f"{where} list {lname!r} candle {i}: {rname}={r} reference over HA closes {ref[i]} (raw close {base[i][4]}, HA close {closes[i]})"})
                    return False
        return True

    pre = sch["preload"]
    try:
        cs = rows_to_candles(rows[:pre])
        if entry == "indicator":
            obj = EMA(period=3, candles=cs, candlestick_type="HA", **kw)
        else:
            members = [EMA(period=3)]
            if case["member_tf"]:
                members.append(EMA(period=2, timeframe=case["member_tf"]))
            obj = Hexital("h", cs, members, candlestick_type="HA", **kw)
        obj.calculate()
        ok = check(obj, pre, "construction")
        pos = pre
        for size in sch["chunks"]:
            if not ok:
                break
            obj.append(encode_chunk(rows, pos, size, sch["enc"]))
            pos += size
            ok = check(obj, pos, f"append@{pos}")
    except Exception as e:
        viol.append({"monitor": "exception", "sig": f"C11|raises|{entry}|{type(e).__name__}", "detail": repr(e)[:500]})
    stats["convert_calls"] = _conv["calls"] - c0["calls"]
    dbl = _conv["double"] - c0["double"]
    if dbl and not viol:
        viol.append({"monitor": "convert-once-hook", "sig": f"C11|converted-twice|{entry}",
                     "detail": f"{dbl} convert_candle call(s) on a candle that was already tagged as converted"})
    nb = len(resample(drows, tf)) if tf else len(drows)
    nontrivial = schedules.n_appends(sch) >= 2 and nb >= 3 and (pre <= 2 or nb < len(rows))
    return {"violations": viol, "nontrivial": nontrivial, "stats": stats,
            "sample": {"entry": entry, "tf": tf, "member_tf": case["member_tf"], "schedule": sch, "n_rows": len(rows), "rows_head": rows[:3]}}
