"""C18 - timeframe bucketing does not depend on the process time zone.

Monitor M7: environment perturbation. Each case is a block of streams; the block is collapsed by the
real CandleManager in one child process per zone (TZ set in the child's environment before the
interpreter starts). Oracle: the serialised bucket lists are identical across zones and equal to the
naive-axis reference resampler.
"""
from __future__ import annotations

import json
import os
import subprocess
import sys
from datetime import datetime, timedelta

from hxv import boot
from hxv.core import digest, short, ts_of
from hxv.gen import streams
from hxv.gen.timeframes import pick_timeframe
from hxv.ref.resample import resample, tf_seconds

ID = "C18"
LEVEL = "exploration"
CASE_TIMEOUT = 240
ZONES = ["UTC", "Asia/Kolkata", "Asia/Kathmandu", "America/New_York", "Europe/London", "Australia/Lord_Howe",
         "Pacific/Chatham", "America/St_Johns", "Asia/Tokyo"]
# local dates on which some of the zones change offset (naive timestamps around them)
DST_BASES = ["2023-03-12T00:30:00", "2023-11-05T00:10:00", "2023-03-26T00:00:00", "2023-10-29T00:20:00",
             "2023-04-02T01:00:00", "2023-10-01T01:30:00", "2023-09-24T01:45:00", "2023-04-01T23:50:00",
             "2024-03-10T01:59:00", "2024-03-31T00:59:30"]
RULE = ("case = block of streams (timestamp palette of C03 plus days on which New_York/London/Lord_Howe/Chatham/St_Johns change "
        "offset; timeframes S..D incl. H and D multiples), collapsed in one child process per zone; bucket lists compared across "
        "zones and with the naive-axis reference. non-trivial stream: >= 2 buckets, >= 1 merge, and the timeframe is >= 15 minutes "
        "or not a divisor of every zone offset (so that a zone-dependent edge would be visible). distinct: stream digest.")
ASSUMPTIONS = ["zone database at /usr/share/zoneinfo; a missing zone is skipped and reported; fewer than 3 zones => inconclusive",
               "naive timestamps only (timezone-aware timestamps are outside the property)"]


def plan(tier):
    if tier == "thorough":
        return {"shards": 16, "cases": 1600, "shard_timeout_s": 3000}
    return {"shards": 16, "cases": 32, "shard_timeout_s": 600}


def floors(tier):
    return {"distinct_nontrivial": 200, "zones_run": 3, "streams_compared": 400, "dst_day_streams": 50}


def gen_case(rng, tier, idx):
    jobs = []
    for _ in range(40):
        big = rng.random() < 0.6
        tf, tf_s, step = pick_timeframe(rng, ["T15", "T30", "T45", "H1", "H2", "H3", "H4", "H5", "H7", "D1", "D2", "D7", "H12", "T90"] if big else None)
        n = rng.randint(3, 90)
        dst = rng.random() < 0.4
        base = ts_of(rng.choice(DST_BASES)) + timedelta(seconds=rng.choice([0, 0, 1, 59, 1800, 3599])) if dst else None
        if base is not None and tf_s * 3 < 86400:
            # keep the stream near the transition: step small enough to straddle it
            step = min(step, max(1, 7200 // max(1, n // 2)))
        rows = streams.make_rows(rng, n, "walk", step, rng.choice(["regular", "jitter", "gaps", "dups"]), tf_s, base=base, max_gap_buckets=10)
        jobs.append({"rows": rows, "tf": tf, "cut": rng.choice([n, n, 0, n // 2, 1]), "fill": rng.random() < 0.25,
                     "entry": rng.choice(["manager", "indicator"]), "dst_day": dst, "ts_as_str": rng.random() < 0.25})
    return {"jobs": jobs}


def run_zone(zone, jobs):
    env = dict(os.environ, TZ=zone, PYTHONHASHSEED="0", PYTHONDONTWRITEBYTECODE="1")
    p = subprocess.run([sys.executable, "-B", "-m", "hxv.tzchild"], input=json.dumps(jobs), capture_output=True, text=True,
                       cwd=boot.VERIF, env=env, timeout=200)
    if p.returncode != 0:
        raise RuntimeError(f"tz child {zone} exited {p.returncode}: {p.stderr[-400:]}")
    return json.loads(p.stdout)


def run_case(case):
    jobs = case["jobs"]
    zones = [z for z in ZONES if z == "UTC" or os.path.exists(os.path.join("/usr/share/zoneinfo", z))]
    stats = {"zones_missing": [z for z in ZONES if z not in zones]}
    res = {z: run_zone(z, jobs) for z in zones}
    stats["zones_run"] = list(zones)
    stats["zone_tznames"] = [f"{z}={res[z]['tzname']}" for z in zones]
    viol = []
    digests = []
    for j, job in enumerate(jobs):
        drows = [(ts_of(r[0]), *r[1:]) for r in job["rows"]]
        want = [[w[0].isoformat(), *w[1:]] for w in resample(drows, job["tf"], job["fill"])]
        stats["streams_compared"] = stats.get("streams_compared", 0) + 1
        if job["dst_day"]:
            stats["dst_day_streams"] = stats.get("dst_day_streams", 0) + 1
        if job.get("ts_as_str"):
            stats["iso_string_timestamp_streams"] = stats.get("iso_string_timestamp_streams", 0) + 1
        per = {z: res[z]["buckets"][j] for z in zones}
        stats["zone_results_compared"] = stats.get("zone_results_compared", 0) + len(zones)
        ref_zone = per["UTC"]
        for z in zones:
            got = per[z]
            if isinstance(got, dict):
                viol.append({"monitor": "tz-child-exception", "sig": f"C18|raises|{'utc' if z == 'UTC' else 'non-utc'}",
                             "detail": f"zone {z} tf {job['tf']}: {got['error']}", "job": j})
                break
            if got != want:
                i = next((k for k in range(min(len(got), len(want))) if got[k] != want[k]), min(len(got), len(want)))
                kind = "differs-from-utc" if (z != "UTC" and ref_zone == want) else "differs-from-reference"
                viol.append({"monitor": "cross-zone-comparison", "sig": f"C18|{kind}|{'dst-day' if job['dst_day'] else 'plain-day'}",
                             "detail": f"zone {z} tf {job['tf']} fill={job['fill']} entry={job['entry']}: bucket {i} got {short(got[i:i + 2], 300)} want {short(want[i:i + 2], 300)} (first row {job['rows'][0][0]})",
                             "job": j})
                break
        unfilled = resample(drows, job["tf"], False)
        s = tf_seconds(job["tf"])
        if len(unfilled) >= 2 and len(unfilled) < len(drows) and (s >= 900 or any(o % s for o in (19800, 20700, 45900, 37800))):
            digests.append(digest([job["rows"], job["tf"], job["cut"], job["fill"], job["entry"]]))
    # a case is a block of 40 streams x len(zones) child executions; distinct non-trivial *streams* are counted
    return {"violations": viol[:3], "nontrivial": bool(digests), "digests": digests, "units": len(jobs), "stats": stats,
            "sample": {"zones": zones, "job0": {k: (v if k != "rows" else v[:4]) for k, v in jobs[0].items()}, "n_jobs": len(jobs)}}
