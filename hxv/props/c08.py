"""C08 - indicators inside a Hexital behave exactly like the same indicators standalone.

Monitors: state recorder on every member's candle list and top-level column and on a standalone twin
of the same class with the effective configuration, both driven by the same schedule over deep copies
of the same rows; construction/append exceptions are events; base-timeframe OHLCV compared with the
raw input. Oracle: exact equality.
"""
from __future__ import annotations

import copy

from hxv import boot
from hxv.core import tf_seconds, rows_to_candles, same, short, snapshot, ts_of
from hxv.drive import encode_chunk
from hxv.gen import configs, schedules, streams
from hxv.gen.timeframes import pick_timeframe

boot.boot()
from hexital import Hexital  # noqa: E402

ID = "C08"
LEVEL = "exploration"
CASE_TIMEOUT = 90
RULE = ("case = (1-5 member configs from the full grid, each given as Indicator object | configuration dict | dict from settings of an "
        "equivalent object; member timeframes none / equal / multiples of the Hexital-level one, repeated and mixed; Hexital-level timeframe, "
        "fill, lifespan, candlestick type HA; rows at construction and/or through an append schedule). Each member is compared with a "
        "standalone twin (effective configuration, same schedule). non-trivial: (>= 2 members or a member on a collapsing timeframe) and "
        ">= 2 appends and >= 1 non-None reading. distinct: case digest.")
ASSUMPTIONS = ["lifespans are generous w.r.t. look-back (C15 precondition) so trimming never starves a reading"]


def plan(tier):
    if tier == "thorough":
        return {"shards": 16, "cases": 100000, "shard_timeout_s": 3000, "shard_budget_s": 1500}
    return {"shards": 16, "cases": 4000, "shard_timeout_s": 600, "shard_budget_s": 100}


def floors(tier):
    return {"distinct_nontrivial": 300, "members_compared": 2000, "forms_seen": 4, "classes_seen": 20, "settings_roundtrips": 300}


def tf_name(s):
    return f"S{s}" if s % 60 else (f"T{s // 60}" if s % 3600 else (f"H{s // 3600}" if s % 86400 else f"D{s // 86400}"))


def gen_case(rng, tier, idx):
    if rng.random() < 0.5:
        tf, tf_s, step = pick_timeframe(rng, ["S5", "S30", "T1", "T2", "T5", "T15", "H1", "H2"])
        mode = rng.choice(["regular", "jitter", "gaps"])
    else:
        tf, tf_s, step, mode = None, None, rng.choice([1, 60, 300]), rng.choice(["regular", "regular", "dups"])
    unit = tf_s or step
    ha = rng.random() < 0.2
    fill = (tf is not None or rng.random() < 0.5) and rng.random() < 0.3
    n = rng.randint(40, 160)
    if fill and tf is None:
        mode = "gaps"  # Hexital-level fill without a Hexital-level timeframe only matters to member timeframes, and only across gaps
    rows = streams.make_rows(rng, n, rng.choice(["walk", "walk", "flat_runs", "spiky", "zero_vol"]), step, mode, tf_s or unit * 3, max_gap_buckets=8)
    members = []
    member_fill = False
    for _ in range(rng.choice([1, 1, 2, 2, 3, 4, 5])):
        c = configs.rand_config(rng, max_period=9, allow_input=rng.random() < 0.5)
        r = rng.random()
        if r < 0.35:
            c["kw"]["timeframe"] = tf_name(unit * rng.choice([2, 3, 5]))
            if tf and rng.random() < 0.3:
                # a member timeframe that is NOT a multiple of the Hexital-level one: finer (a multiple of the feed's step) or coarser by 3/2
                alts = [step * k for k in (1, 2, 3) if step * k < tf_s] + ([tf_s * 3 // 2] if tf_s % 2 == 0 else [])
                if alts:
                    c["kw"]["timeframe"] = tf_name(rng.choice(alts))
        elif r < 0.45 and tf:
            c["kw"]["timeframe"] = tf
        if c["kw"].get("timeframe") and not fill and not ha and rng.random() < 0.2:
            c["kw"]["timeframe_fill"] = True  # a member's own flag: inside a Hexital the Hexital-level setting is the effective one
            member_fill = True
        members.append({"cfg": c, "form": rng.choice(["object", "dict", "settings", "settings", "settings_used", "object_used"])})
    if member_fill:
        rows = streams.make_rows(rng, n, "walk", step, "gaps", tf_s or unit * 3, max_gap_buckets=8)
    lifespan = None
    life_mode = None
    sch = schedules.rand_schedule(rng, n, bucket=max(1, unit // step))
    if rng.random() < 0.3:
        # C15's precondition must hold: regular timestamps, and the window covers look-back + the largest chunk of every append
        rows = streams.make_rows(rng, n, rng.choice(["walk", "walk", "flat_runs", "spiky", "zero_vol"]), step, "regular", tf_s)
        life_mode = "appends-only" if rng.random() < 0.6 else "preload"
        if life_mode == "appends-only":
            sch["preload"] = min(sch["preload"], 2)
        sch["chunks"] = schedules.rand_chunks(rng, n - sch["preload"], style=rng.choice(["singles", "random", "bucket", "offbucket"]), bucket=max(1, unit // step))
        max_lb = max(configs.lookback(m["cfg"]) for m in members)
        max_mult = max([1] + [int(ts_mult(m["cfg"]["kw"].get("timeframe"), unit)) for m in members])
        lifespan = (2 * max_lb + 8) * unit * max_mult + (max(sch["chunks"] + [1]) + 3) * step
    return {"rows": rows, "tf": tf, "fill": fill, "ha": ha, "lifespan_s": lifespan, "life_mode": life_mode, "members": members, "schedule": sch}


def ts_mult(tfname, unit):
    if not tfname:
        return 1
    from hxv.ref.resample import tf_seconds
    return max(1, tf_seconds(tfname) // unit)


def cls_of(c):
    return c["cls"] if c["cls"] != "Amorph" else f"Amorph:{c['analysis']}"


def run_case(case):
    rows, sch = case["rows"], case["schedule"]
    hkw = {}
    if case["tf"]:
        hkw["timeframe"] = case["tf"]
    if case["fill"]:
        hkw["timeframe_fill"] = True
    if case["ha"]:
        hkw["candlestick_type"] = "HA"
    if case["lifespan_s"]:
        from datetime import timedelta
        hkw["candles_lifespan"] = timedelta(seconds=case["lifespan_s"])
    stats = {"hex_settings": [f"tf={bool(case['tf'])},fill={case['fill']},ha={case['ha']},life={case['life_mode']}"]}
    viol = []

    def V(monitor, sig, detail):
        if len(viol) < 3 and sig not in [v["sig"] for v in viol]:
            viol.append({"monitor": monitor, "sig": sig, "detail": detail})

    # ---------------- registration forms
    entries, names, forms = [], [], []
    for m in case["members"]:
        cfg = m["cfg"]
        try:
            ref = configs.build(cfg)
        except Exception as e:
            V("registration", f"C08|build-raises|{cls_of(cfg)}", repr(e)[:300])
            continue
        if ref.name in names:
            continue
        names.append(ref.name)
        forms.append(m["form"])
        stats.setdefault("forms_seen", set()).add(m["form"])
        stats.setdefault("classes_seen", set()).add(cls_of(cfg))
        if m["form"] == "object":
            entries.append(ref)
        elif m["form"] == "object_used":
            # an indicator object that already lived on its own (other candles, readings computed, cursor moved) and is then handed to
            # the Hexital: it is re-homed onto the Hexital's candles and must behave like a fresh one
            used = configs.build(cfg, candles=rows_to_candles(rows[:14]))
            used.calculate()
            entries.append(used)
            stats["used_objects_rehomed"] = stats.get("used_objects_rehomed", 0) + 1
        elif m["form"] == "dict":
            entries.append(configs.as_dict_form(cfg))
        elif m["form"] == "settings_used":
            # settings read from an indicator that has already been calculated (helpers exist, cursor moved): still a valid recipe
            used = configs.build(cfg, candles=rows_to_candles(rows[:12]))
            used.calculate()
            entries.append(copy.deepcopy(used.settings))
            stats["settings_roundtrips"] = stats.get("settings_roundtrips", 0) + 1
        else:
            entries.append(copy.deepcopy(ref.settings))
            stats["settings_roundtrips"] = stats.get("settings_roundtrips", 0) + 1
    kept = [m for m in case["members"] if True]
    cfg_by_name = {}
    for m in case["members"]:
        try:
            nm = configs.build(m["cfg"]).name
        except Exception:
            continue
        cfg_by_name.setdefault(nm, m)
    pre = sch["preload"]
    try:
        hx = Hexital("h", rows_to_candles(rows[:pre]), entries, **hkw)
    except Exception as e:
        bad = "settings" if any(f.startswith("settings") for f in forms) else ("dict" if "dict" in forms else "object")
        V("registration", f"C08|construction-raises|{bad}|{type(e).__name__}", f"Hexital(...) raised {e!r}; entries={short(entries, 400)}")
        return {"violations": viol, "nontrivial": True, "stats": stats}
    # raw view of the default manager right after construction (used only to classify a known mechanism, see below)
    seed_rows = []
    for c in hx.candles():
        d = vars(c)
        vals = d["clean_values"] if d.get("clean_values") else d
        seed_rows.append([d["timestamp"], vals["open"], vals["high"], vals["low"], vals["close"], vals["volume"]])
    got_names = list(hx.indicators)
    if sorted(got_names) != sorted(names):
        V("registration", "C08|names-differ", f"registered {got_names} expected {names}")
        return {"violations": viol, "nontrivial": True, "stats": stats}
    # ---------------- twins
    twins = {}
    for nm in names:
        m = cfg_by_name[nm]
        cfg = m["cfg"]
        eff_tf = cfg["kw"].get("timeframe") or case["tf"]
        kw = {k: v for k, v in hkw.items() if k != "timeframe"}
        cfg2 = {**cfg, "kw": {k: v for k, v in cfg["kw"].items() if k not in ("timeframe", "timeframe_fill")}}
        if eff_tf:
            kw["timeframe"] = eff_tf
        twins[nm] = configs.build(cfg2, candles=rows_to_candles(rows[:pre]), **kw)
    def non_nested(cfg):
        mtf = cfg["kw"].get("timeframe")
        return bool(mtf and case["tf"] and tf_seconds(mtf) % tf_seconds(case["tf"]) != 0)

    def seeded_twin(cfg):
        """The known mechanism reproduced exactly: a standalone indicator seeded with the Hexital's already processed (collapsed / filled /
        trimmed) base candles and then driven by the same schedule. -> (column | None, (exception type name, chunk number) | None)"""
        eff = {k: v for k, v in hkw.items() if k != "timeframe"}
        eff["timeframe"] = cfg["kw"]["timeframe"]
        cfg2 = {**cfg, "kw": {k: v for k, v in cfg["kw"].items() if k not in ("timeframe", "timeframe_fill")}}
        j = -1
        try:
            t2 = configs.build(cfg2, candles=rows_to_candles(seed_rows), **eff)
            if sch.get("precalc"):
                t2.calculate()
            p2 = pre
            for j, size in enumerate(sch["chunks"]):
                t2.append(encode_chunk(rows, p2, size, sch.get("enc", "candle")))
                p2 += size
        except Exception as e2:
            return None, (type(e2).__name__, j)
        return [(s_["ts"], s_["ohlcv"], s_["ind"].get(t2.name)) for s_ in snapshot(t2.candles, helpers=False)], None

    j = -1
    try:
        if sch.get("precalc"):
            hx.calculate()
            for t in twins.values():
                t.calculate()
        pos = pre
        for j, size in enumerate(sch["chunks"]):
            hx.append(encode_chunk(rows, pos, size, sch.get("enc", "candle")))
            for t in twins.values():
                t.append(encode_chunk(rows, pos, size, sch.get("enc", "candle")))
            pos += size
    except Exception as e:
        import traceback
        if pre > 0 and type(e).__name__ == "InvalidCandleOrder":
            # a member manager seeded from base candles already collapsed to a timeframe its own does not nest in holds buckets labelled in
            # the future: the next raw candle is "out of order". Attributed to the recorded finding only when the exactly seeded standalone
            # twin of such a member raises the same error at the same append.
            for nm in names:
                cfg = cfg_by_name[nm]["cfg"]
                if non_nested(cfg) and seeded_twin(cfg)[1] == ("InvalidCandleOrder", j):
                    V("standalone-twin", "C08|member-tf-seeded-from-processed-base|collapsed",
                      f"member {nm} (timeframe {cfg['kw']['timeframe']} inside Hexital timeframe {case['tf']}, {pre} candles at construction): append #{j} raises InvalidCandleOrder exactly like a standalone indicator seeded with the Hexital's already collapsed base candles")
                    return {"violations": viol, "nontrivial": True, "stats": stats}
        V("exception", f"C08|append-raises|{type(e).__name__}", (repr(e) + traceback.format_exc()[-400:])[:800])
        return {"violations": viol, "nontrivial": True, "stats": stats}
    any_reading = False
    for nm in names:
        member = hx.indicators[nm]
        twin = twins[nm]
        cfg = cfg_by_name[nm]["cfg"]
        own_tf = bool(cfg["kw"].get("timeframe"))
        a = [(s["ts"], s["ohlcv"], s["ind"].get(nm)) for s in snapshot(member.candles, helpers=False)]
        b = [(s["ts"], s["ohlcv"], s["ind"].get(twin.name)) for s in snapshot(twin.candles, helpers=False)]
        stats["members_compared"] = stats.get("members_compared", 0) + 1
        via_hexital = hx.reading_as_list(nm)
        if not same(via_hexital, [x[2] for x in a]):
            V("hexital-accessor", "C08|reading_as_list-differs-from-member", f"Hexital.reading_as_list({nm!r}) {short(via_hexital[-3:], 150)} != the member's own column {short([x[2] for x in a][-3:], 150)}; hexital settings {stats['hex_settings']}")
        if any(x[2] is not None and x[2] != {} for x in b):
            any_reading = True
        if not same(a, b):
            if len(a) != len(b):
                kind, i = "candle-count", min(len(a), len(b))
            else:
                i = next(k for k in range(len(a)) if not same(a[k], b[k]))
                kind = "candles" if a[i][:2] != b[i][:2] else "readings"
            if own_tf and pre > 0 and (case["lifespan_s"] or (case["fill"] and case["tf"]) or non_nested(cfg)):
                # Known mechanism: the member-timeframe manager is seeded from the default manager's already processed candles
                # (trimmed by the lifespan / gap-filled) instead of the raw input. Decide by reproducing exactly that seeding
                # with a standalone indicator: only an exact match is attributed to the known mechanism.
                c2 = seeded_twin(cfg)[0]
                if c2 is not None and same(a, c2):
                    which = "collapsed" if non_nested(cfg) else ("trimmed" if case["lifespan_s"] else "filled")
                    V("standalone-twin", f"C08|member-tf-seeded-from-processed-base|{which}",
                      f"member {nm} equals a standalone indicator seeded with the Hexital's already {which} base candles, not one fed the raw stream: first difference at candle {i} of {len(a)}: member {short(a[i] if i < len(a) else None, 200)} raw-fed twin {short(b[i] if i < len(b) else None, 200)}")
                    continue
            ctx = []
            if own_tf:
                ctx.append("member-tf")
            if case["ha"]:
                ctx.append("ha")
            if case["lifespan_s"] and case["life_mode"] == "preload" and own_tf and pre > 0:
                ctx.append("lifespan-preload")
            if case["fill"] and case["tf"] and own_tf and pre > 0:
                ctx.append("fill-preload")
            V("standalone-twin", f"C08|{kind}|{'+'.join(ctx) or 'plain'}|{cfg_by_name[nm]['form']}" if kind == "readings" and not ctx else f"C08|{kind}|{'+'.join(ctx) or 'plain'}",
              f"member {nm} (form {cfg_by_name[nm]['form']}) vs standalone twin: {kind} differ at candle {i} of {len(a)}/{len(b)}: member {short(a[i] if i < len(a) else None, 250)} twin {short(b[i] if i < len(b) else None, 250)}; hexital settings {stats['hex_settings']}")
    # ---------------- base candles keep original OHLCV
    if not case["tf"]:
        base = hx.candles()
        raw = [(ts_of(r[0]), r[1], r[2], r[3], r[4], r[5]) for r in rows[:pos]]
        raw = raw[len(raw) - len(base):] if len(base) <= len(raw) else raw
        for i, c in enumerate(base):
            d = vars(c)
            vals = d["clean_values"] if case["ha"] and d.get("clean_values") else d
            g = (d["timestamp"], vals["open"], vals["high"], vals["low"], vals["close"], vals["volume"])
            if i >= len(raw) or g != raw[i]:
                if case["fill"]:
                    break  # filled base list has extra candles; covered by C12
                V("base-ohlcv", f"C08|base-candles-altered|{'ha' if case['ha'] else 'plain'}", f"base candle {i}: {g} vs raw {raw[i] if i < len(raw) else None}")
                break
        stats["base_lists_checked"] = stats.get("base_lists_checked", 0) + 1
    nontrivial = (len(names) >= 2 or any(cfg_by_name[n_]["cfg"]["kw"].get("timeframe") or case["tf"] for n_ in names)) and schedules.n_appends(sch) >= 2 and any_reading
    return {"violations": viol, "nontrivial": nontrivial or bool(viol), "stats": stats,
            "sample": {"hex": {k: str(v) for k, v in hkw.items()}, "members": case["members"], "names": names, "schedule": {**sch, "chunks": sch["chunks"][:12]}, "n_rows": len(rows)}}
