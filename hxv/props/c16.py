"""C16 - pattern and movement functions are causal and index-consistent.

Monitors: direct-call recorder over every function of MOVEMENT_MAP, PATTERN_MAP (plus above/below),
exhaustive over every index of each generated list and a fixed argument grid: result at index i on the
full list vs default position on the list truncated after i vs the equivalent negative index;
exceptions are events; the candle-access tracer counts reads beyond i as evidence; Amorph columns are
compared live vs batch vs direct per-index calls.
"""
from __future__ import annotations

from hxv import boot
from hxv.core import rows_to_candles, same, short
from hxv.gen import streams
from hxv.instr.monlist import MonitoredList, ReadSink, direct_call

boot.boot()
from hexital import Candle, Hexital  # noqa: E402
from hexital.analysis import MOVEMENT_MAP, PATTERN_MAP, movement  # noqa: E402
from hexital.indicators import Amorph  # noqa: E402
from hexital.utils.indexing import round_values  # noqa: E402

ID = "C16"
LEVEL = "exploration"
CASE_TIMEOUT = 120
RULE = ("case = one candle list of 1-60 candles (well-formed OHLCV, fabricated reading series A,B with leading/interior gaps, ties, "
        "absent keys; a name Z that never exists). For EVERY function in the movement and pattern maps (+above/below), every index of "
        "the list and every argument set of a fixed grid (length in {1,2,3,4,7,30}, lookback in {None,1,3,12}, reading names incl. "
        "missing ones): f(L,i) vs f(L[:i+1]) vs f(L,i-len(L)), no exception. Plus Amorph(f) live vs batch vs direct calls. "
        "exhaustive per list. non-trivial: list of >= 12 candles with >= 1 missing reading. distinct: list digest.")
ASSUMPTIONS = ["readings are numbers, None or absent (dict-valued/other types as movement inputs are outside 'named readings are missing')"]

TWO = {"cross", "crossover", "crossunder"}
FUNCS = dict(MOVEMENT_MAP)
FUNCS["above"] = movement.above
FUNCS["below"] = movement.below
ALLMAP = {**MOVEMENT_MAP, **PATTERN_MAP}
# documented analysis names -> the function they must stand for, taken from the modules by attribute (not from the maps under test)
from hexital.analysis import patterns as _pt  # noqa: E402
EXPECTED = {name: getattr(movement, name) for name in ("cross", "crossover", "crossunder", "falling", "highest", "highestbar", "lowest", "lowestbar",
                                                        "mean_falling", "mean_rising", "negative", "positive", "rising", "value_range")}
EXPECTED.update({"doji": _pt.doji, "dojistar": _pt.dojistar, "hammer": _pt.hammer, "inv_hammer": _pt.inverted_hammer, "inverted_hammer": _pt.inverted_hammer})
LENGTHS = [1, 2, 3, 4, 7, 30]
LOOKBACKS = [None, 1, 3, 12]
NAMES = ["A", "B", "close", "Z"]


def plan(tier):
    if tier == "thorough":
        return {"shards": 16, "cases": 20000, "shard_timeout_s": 3000, "shard_budget_s": 1500}
    return {"shards": 16, "cases": 480, "shard_timeout_s": 600, "shard_budget_s": 100}


def floors(tier):
    return {"distinct_nontrivial": 100, "calls_compared": 1000000, "functions_seen": 20, "amorph_columns_compared": 500}


def gen_case(rng, tier, idx):
    n = rng.choice([1, 2, 3, 5, 9, 10, 11, 12, 13, 20, 25]) if rng.random() < 0.5 else rng.randint(1, 60)
    fam = rng.choice(["walk", "walk", "flat_runs", "plateau", "spiky"])
    rows = streams.make_rows(rng, n, fam, 60)
    if rng.random() < 0.5:
        # plant small-bodied / long-shadowed candles so that patterns fire
        for r in rows:
            if rng.random() < 0.3:
                mid = r[1]
                r[4] = round(mid + rng.choice([0, 0.01, -0.01]), 2)
                r[2] = max(r[2], r[4], r[1])
                r[3] = min(r[3], r[4], r[1])
    readings = []
    start_a = rng.choice([0, 0, 1, 3, n // 2])
    level = rng.choice([0, 50, 100])
    for i in range(n):
        d = {}
        if i >= start_a and rng.random() > 0.12:
            d["A"] = rng.choice([level, level + 1, level - 1, level + rng.randint(-3, 3), round(level + rng.uniform(-2, 2), 2)])
        elif rng.random() < 0.5:
            d["A"] = None
        if rng.random() > 0.2:
            d["B"] = rng.choice([level, level + rng.randint(-2, 2)])
        readings.append(d)
    return {"rows": rows, "readings": readings, "family": fam}


def build(case, monitored=False):
    cs = rows_to_candles(case["rows"])
    for c, d in zip(cs, case["readings"]):
        c.indicators = dict(d)
    return MonitoredList(cs) if monitored else cs


def arg_grid(name):
    if name in ("positive", "negative"):
        return [{}]
    if name in PATTERN_MAP:
        return [{"lookback": lb} for lb in LOOKBACKS]
    if name in ("above", "below"):
        return [{"indicator": a, "indicator_two": b} for a, b in (("A", "B"), ("B", "A"), ("close", "A"), ("A", "Z"))]
    if name in TWO:
        return [{"indicator_one": a, "indicator_two": b, "length": ln} for a, b in (("A", "B"), ("close", "A"), ("A", "Z")) for ln in (1, 2, 4, 30)]
    return [{"indicator": nm, "length": ln} for nm in NAMES for ln in LENGTHS]


def run_case(case):
    L = build(case, monitored=True)
    n = len(L)
    stats = {"list_lengths": [n]}
    viol = []
    sink = ReadSink()
    allf = {**{k: EXPECTED.get(k, v) for k, v in FUNCS.items()}, **{k: EXPECTED.get(k, v) for k, v in PATTERN_MAP.items()}}

    def V(monitor, sig, detail):
        if len(viol) < 4 and sig not in [v["sig"] for v in viol]:
            viol.append({"monitor": monitor, "sig": sig, "detail": detail})

    with sink:
        for fname, f in allf.items():
            stats.setdefault("functions_seen", set()).add(fname)
            for kw in arg_grid(fname):
                argk = ",".join(f"{k}={v}" for k, v in kw.items() if k in ("length", "lookback"))
                for i in range(n):
                    try:
                        with direct_call(fname, i):
                            full = f(L, index=i, **kw)
                    except Exception as e:
                        V("exception", f"C16|raises|{fname}|{type(e).__name__}", f"{fname}(L[{n}], index={i}, {kw}) raised {e!r}")
                        continue
                    try:
                        trunc = f(list.__getitem__(L, slice(0, i + 1)), **kw)
                        neg = f(L, index=i - n, **kw)
                    except Exception as e:
                        V("exception", f"C16|raises|{fname}|{type(e).__name__}", f"{fname} on truncated list / negative index {i - n} of {n}, {kw}: {e!r}")
                        continue
                    stats["calls_compared"] = stats.get("calls_compared", 0) + 3
                    if not same(full, trunc):
                        V("truncation-twin", f"C16|depends-on-later-candles|{fname}", f"{fname}(L[{n}], index={i}, {kw}) = {full!r} but on the list truncated after {i} = {trunc!r}")
                    if not same(full, neg):
                        V("negative-index-twin", f"C16|negative-index|{fname}", f"{fname}(L[{n}], index={i}, {kw}) = {full!r} but index={i - n} gives {neg!r}")
    stats["list_reads"] = sink.reads
    stats["reads_beyond_index"] = sink.lookahead_count
    # ---------------- Amorph: live vs batch vs direct
    for fname, f in allf.items():
        if viol:
            break
        for kw in arg_grid(fname)[:3]:
            try:
                plain = build(case)
                batch = Amorph(analysis=f, candles=plain, **{k: v for k, v in kw.items() if v is not None})
                batch.calculate()
                bcol = batch.as_list()
                live = Amorph(analysis=f, candles=build(case)[:1], **{k: v for k, v in kw.items() if v is not None})
                live.calculate()
                for c in build(case)[1:]:
                    live.append(c)
                lcol = live.as_list()
                direct = [round_values(f(candles=plain, index=i, **{k: v for k, v in kw.items() if v is not None}), 4) for i in range(n)]
            except Exception as e:
                V("exception", f"C16|raises-amorph|{fname}|{type(e).__name__}", f"Amorph({fname}, {kw}) on {n} candles: {e!r}")
                continue
            stats["amorph_columns_compared"] = stats.get("amorph_columns_compared", 0) + 1
            keys = [k for k, v in EXPECTED.items() if v is f and k in ALLMAP]
            for key in keys:
                try:
                    args = {k: v for k, v in kw.items() if v is not None}
                    hx = Hexital("h", build(case), [{"analysis": key, **({"args": args} if args else {})}])
                    hx.calculate()
                    hcol = hx.reading_as_list(batch.name)
                    stats["dict_wrapper_columns_compared"] = stats.get("dict_wrapper_columns_compared", 0) + 1
                    if not same(hcol, bcol):
                        V("dict-wrapper", f"C16|dict-wrapper|{key}", f"Hexital dict form {{'analysis': {key!r}, 'args': {args}}} column (read as {batch.name!r}) differs from the documented function {f.__name__}: {short(hcol[:3], 80)}.. vs {short(bcol[:3], 80)}..")
                except Exception as e:
                    V("exception", f"C16|raises-dict-wrapper|{fname}|{type(e).__name__}", f"Hexital dict form for {key} {kw}: {e!r}")
            if not same(bcol, lcol):
                i = next(i for i in range(n) if not same(bcol[i], lcol[i]))
                V("amorph-live-vs-batch", f"C16|amorph-live-batch|{fname}", f"Amorph({fname},{kw}) candle {i}/{n}: batch {bcol[i]!r} live {lcol[i]!r}")
            elif not same(bcol, direct):
                i = next(i for i in range(n) if not same(bcol[i], direct[i]))
                V("amorph-vs-direct", f"C16|amorph-direct|{fname}", f"Amorph({fname},{kw}) candle {i}/{n}: column {bcol[i]!r} direct call {direct[i]!r}")
    nontrivial = n >= 12 and any(d.get("A") is None for d in case["readings"])
    return {"violations": viol, "nontrivial": nontrivial, "stats": stats,
            "sample": {"n": n, "family": case["family"], "rows_head": case["rows"][:2], "readings_head": case["readings"][:8]}}
