"""C14 - maintenance operations are idempotent and always converge to the batch state.

Monitors: state recorder (M1) before and after every operation of a random operation program over a
Hexital (1-4 members) or a standalone indicator; online postconditions per operation; final state
compared with a fresh batch twin over the rows consumed (values of every top-level reading and the key
sets left on every candle).
"""
from __future__ import annotations

from hxv import boot
from hxv.core import ts_of, tf_seconds, rows_to_candles, same, short, snapshot
from hxv.drive import encode_chunk
from hxv.gen import configs, streams
from hxv.gen.timeframes import pick_timeframe

boot.boot()
from hexital import Hexital  # noqa: E402

ID = "C14"
LEVEL = "exploration"
CASE_TIMEOUT = 90
RULE = ("case = (standalone indicator | Hexital with 1-4 members, optional Hexital-level collapsing timeframe and member timeframes, stream, "
        "operation program of 5-40 words over append(chunk) | calculate([name]) | purge([name]) | recalculate([name]) | "
        "calculate_index([name], +/-i) (only on complete states) | add_indicator | remove_indicator). Postconditions are checked after every "
        "operation, the batch oracle after a final calculate(). non-trivial: >= 3 state-changing maintenance operations executed and >= 1 "
        "non-None reading in the final state. distinct: case digest.")
ASSUMPTIONS = ["calculate_index is issued only when every reading of the addressed member is computed (the property's precondition)",
               "helper values are compared with the batch twin and reported (helper_value_divergence); helper *key sets* are decisive, "
               "because leftovers of a purged/removed member are what 'removes every entry' forbids"]


def plan(tier):
    if tier == "thorough":
        return {"shards": 16, "cases": 150000, "shard_timeout_s": 3000, "shard_budget_s": 1500}
    return {"shards": 16, "cases": 6000, "shard_timeout_s": 600, "shard_budget_s": 100}


def floors(tier):
    return {"distinct_nontrivial": 300, "ops_executed": 10000, "postconditions_checked": 10000, "final_batch_comparisons": 1000, "op_kinds": 7}


def gen_case(rng, tier, idx):
    standalone = rng.random() < 0.35
    if rng.random() < 0.35:
        tf, tf_s, step = pick_timeframe(rng)
        mode = rng.choice(["regular", "jitter", "gaps"])
    else:
        tf, tf_s, step, mode = None, None, 60, "regular"
    n = rng.randint(40, 150)
    rows = streams.make_rows(rng, n, rng.choice(["walk", "walk", "flat_runs", "spiky", "zero_vol"]), step, mode, tf_s, max_gap_buckets=8)
    members = [configs.rand_config(rng, max_period=9, allow_input=False) for _ in range(1 if standalone else rng.randint(1, 4))]
    if not standalone:
        for c in members:
            if rng.random() < 0.2:
                s = (tf_s or step) * rng.choice([2, 3])
                c["kw"]["timeframe"] = f"S{s}" if s % 60 else (f"T{s // 60}" if s % 3600 else f"H{s // 3600}")
    spare = [configs.rand_config(rng, max_period=9, allow_input=False) for _ in range(2)]
    tfs = [c["kw"]["timeframe"] for c in members if c["kw"].get("timeframe")]
    if tfs and rng.random() < 0.7:
        spare[0]["kw"]["timeframe"] = rng.choice(tfs)  # added later onto a member timeframe that already has a manager
    ha = rng.random() < 0.2
    words = []
    pre = rng.randint(0, n // 2)
    budget = n - pre
    for _ in range(rng.randint(5, 40)):
        w = rng.choice(["append", "append", "append", "calculate", "calculate_one", "purge", "purge_one", "recalculate", "recalculate_one",
                        "calc_index", "calc_index_one", "add", "remove", "calculate_twice", "replace"])
        if w == "append":
            k = min(budget, rng.choice([1, 1, 2, 5, 11]))
            if k == 0:
                continue
            budget -= k
            words.append({"op": "append", "n": k})
        elif w in ("add", "remove", "replace") and standalone:
            continue
        elif w == "replace":
            words.append({"op": "replace", "m": rng.randint(0, 5), "input": rng.choice(["high", "low", "open"]), "form": rng.choice(["object", "dict"]),
                          "then": rng.choice(["nothing", "recalculate_one", "remove"]), "move": rng.random() < 0.35, "mult": rng.choice([2, 3])})
        elif w == "add":
            words.append({"op": "add", "spare": rng.randint(0, 1), "form": rng.choice(["object", "dict"])})
        else:
            words.append({"op": w, "m": rng.randint(0, 5), "i": rng.choice([-1, -1, -2, -3, -7, 0, 1, 2, "last", "mid", "first_neg"])})
    return {"standalone": standalone, "tf": tf, "rows": rows, "members": members, "spare": spare, "preload": pre, "program": words, "ha": ha}


def tops(lists):
    return {ln: [(s["ts"], s["ohlcv"], s["ind"]) for s in snapshot(cs, helpers=False)] for ln, cs in lists.items()}


def full(lists):
    return {ln: snapshot(cs) for ln, cs in lists.items()}


def cls_of(c):
    return c["cls"] if c["cls"] != "Amorph" else f"Amorph:{c['analysis']}"


def run_case(case):
    rows, tf = case["rows"], case["tf"]
    kw = {"timeframe": tf} if tf else {}
    if case.get("ha"):
        kw["candlestick_type"] = "HA"  # maintenance must not disturb the conversion state of the candles either
    stats = {"modes": {"standalone" if case["standalone"] else "hexital": 1}, "candlestick": {"HA" if case.get("ha") else "none": 1}}
    viol = []
    members = []          # (cfg, name) currently registered, in order
    seen_names = set()
    for c in case["members"]:
        nm = configs.build(c).name
        if nm not in seen_names:
            members.append((c, nm))
            seen_names.add(nm)
    pos = case["preload"]
    standalone = case["standalone"]
    changing = 0

    def V(monitor, sig, detail):
        viol.append({"monitor": monitor, "sig": sig, "detail": detail})

    try:
        if standalone:
            cfg0, name0 = members[0]
            obj = configs.build(cfg0, candles=rows_to_candles(rows[:pos]), **kw)
            lists = lambda: {"": obj.candles}  # noqa: E731
        else:
            obj = Hexital("h", rows_to_candles(rows[:pos]), [configs.build(c) for c, _ in members], **kw)
            lists = lambda: dict(obj.get_candles())  # noqa: E731
        complete = {nm: False for _, nm in members}

        def member_name(m):
            return members[m % len(members)][1] if members else None

        for w in case["program"]:
            if viol:
                break
            op = w["op"]
            stats.setdefault("op_kinds", set()).add(op)
            stats["ops_executed"] = stats.get("ops_executed", 0) + 1
            one = op.endswith("_one")
            nm = member_name(w.get("m", 0)) if (one and members) else None
            clsname = cls_of(dict(members)[nm] if False else next((c for c, n_ in members if n_ == nm), members[0][0] if members else {"cls": "-"})) if members else "-"
            tag = clsname if (one or standalone) else "all"
            before_top = tops(lists())
            if op == "append":
                obj.append(encode_chunk(rows, pos, w["n"], "candle"))
                pos += w["n"]
                for k in complete:
                    complete[k] = True
            elif op in ("calculate", "calculate_one", "calculate_twice"):
                if standalone or not one:
                    obj.calculate()
                    for k in complete:
                        complete[k] = True
                else:
                    obj.calculate(nm)
                    complete[nm] = True
                snap1 = full(lists())
                if op == "calculate_twice" or True:
                    if standalone or not one:
                        obj.calculate()
                    else:
                        obj.calculate(nm)
                    snap2 = full(lists())
                    stats["postconditions_checked"] = stats.get("postconditions_checked", 0) + 1
                    if not same(snap1, snap2):
                        V("calculate-idempotent", f"C14|calculate-twice-changes|{tag}", f"second calculate({nm!r}) changed the state")
                changing += 1
            elif op in ("recalculate", "recalculate_one"):
                target = [nm] if (one and not standalone) else [n_ for _, n_ in members]
                if any(not complete[t] for t in target):
                    # recalculate must reproduce what calculate gives: bring the state to complete first
                    obj.calculate()
                    for k in complete:
                        complete[k] = True
                    before_top = tops(lists())
                if standalone or not one:
                    obj.recalculate()
                else:
                    obj.recalculate(nm)
                after = tops(lists())
                stats["postconditions_checked"] = stats.get("postconditions_checked", 0) + 1
                if not same(before_top, after):
                    d = diff_tops(before_top, after)
                    V("recalculate-reproduces", f"C14|recalculate-differs|{tag}", f"recalculate({nm!r}): {d}")
                changing += 1
            elif op in ("purge", "purge_one"):
                if standalone:
                    obj.purge()
                    left = {k for c in obj.candles for k in list(vars(c)["indicators"]) + list(vars(c)["sub_indicators"])}
                    stats["postconditions_checked"] = stats.get("postconditions_checked", 0) + 1
                    if left:
                        V("purge-leaves-nothing", f"C14|purge-leftover|{clsname}", f"standalone purge() left keys {sorted(left)[:8]}")
                    complete[members[0][1]] = False
                else:
                    if one:
                        obj.purge(nm)
                        purged = [nm]
                    else:
                        obj.purge()
                        purged = [n_ for _, n_ in members]
                    after = tops(lists())
                    stats["postconditions_checked"] = stats.get("postconditions_checked", 0) + 1
                    for ln, col in after.items():
                        for i, (ts, ohlcv, ind) in enumerate(col):
                            bind = before_top[ln][i][2]
                            for k in purged:
                                if k in ind:
                                    V("purge-removes", f"C14|purge-kept-reading|{tag}", f"purge({nm!r}) left {k} on list {ln!r} candle {i}")
                                    break
                            for k, v in bind.items():
                                if k not in purged and not same(ind.get(k, "<gone>"), v):
                                    V("purge-nothing-else", f"C14|purge-touched-other|{tag}", f"purge({nm!r}) changed {k} on list {ln!r} candle {i}: {short(v, 120)} -> {short(ind.get(k, '<gone>'), 120)}")
                                    break
                            if viol:
                                break
                        if viol:
                            break
                    if not one and not viol:
                        left = {k for cs in lists().values() for c in cs for k in list(vars(c)["indicators"]) + list(vars(c)["sub_indicators"])}
                        if left:
                            V("purge-leaves-nothing", "C14|purge-leftover|all", f"Hexital.purge() left keys {sorted(left)[:8]}")
                    for k in purged:
                        complete[k] = False
                changing += 1
            elif op in ("calc_index", "calc_index_one"):
                target = [nm] if (one and not standalone) else [n_ for _, n_ in members]
                if not members or any(not complete[t] for t in target):
                    stats["calc_index_skipped_incomplete"] = stats.get("calc_index_skipped_incomplete", 0) + 1
                    continue
                L = min(len(cs) for cs in lists().values())
                if L == 0:
                    continue
                i = w["i"]
                i = {"last": L - 1, "mid": L // 2, "first_neg": -L}.get(i, i)
                if not (-L <= i < L):
                    continue
                if standalone:
                    obj.calculate_index(i)
                elif one:
                    obj.calculate_index(nm, i)
                elif i == -1 and w.get("m", 0) % 2:
                    obj.calculate_index()
                else:
                    obj.calculate_index(index=i)
                after = tops(lists())
                stats["postconditions_checked"] = stats.get("postconditions_checked", 0) + 1
                stats["calc_index_by_sign"] = {"negative" if i < 0 else "non-negative": 1}
                if not same(before_top, after):
                    d = diff_tops(before_top, after)
                    V("calculate_index-reproduces", f"C14|calculate_index-differs|{'negative' if i < 0 else 'non-negative'}|{tag}",
                      f"calculate_index({nm!r}, {i}) on a complete state of {L} candles: {d}")
                changing += 1
            elif op == "add":
                cfg = case["spare"][w["spare"]]
                new = configs.build(cfg)
                if new.name in {n_ for _, n_ in members}:
                    continue
                obj.add_indicator(new if w["form"] == "object" else configs.as_dict_form(cfg))
                members.append((cfg, new.name))
                complete[new.name] = False
                changing += 1
            elif op == "replace":
                # add_indicator with a configuration that differs only in a parameter the name does not show (input_value): it takes the
                # place of the registered member of that name; what the old one wrote (helpers included) must not survive into the new one
                old_name = member_name(w.get("m", 0))
                ocfg = next(c for c, n_ in members if n_ == old_name)
                if w.get("move") and ocfg["cls"] != "Amorph":
                    # ... or it keeps every parameter and moves to another timeframe under the old name (fullname_override): nothing the old
                    # one wrote may stay behind on the candles of the timeframe it leaves
                    step_s = int((ts_of(rows[1][0]) - ts_of(rows[0][0])).total_seconds()) or 60
                    base_s = tf_seconds(tf) if tf else step_s
                    s_ = base_s * w.get("mult", 2) * (2 if ocfg["kw"].get("timeframe") else 1)
                    ntf = f"S{s_}" if s_ % 60 else (f"T{s_ // 60}" if s_ % 3600 else f"H{s_ // 3600}")
                    if ntf == ocfg["kw"].get("timeframe"):
                        continue
                    ncfg = {"cls": ocfg["cls"], "kw": {**ocfg["kw"], "timeframe": ntf, "fullname_override": old_name}}
                elif ocfg["cls"] not in configs.HAS_INPUT or ocfg["cls"] in ("ROC", "STOCH", "KC", "Supertrend") or ocfg["kw"].get("input_value") == w["input"]:
                    continue
                else:
                    ncfg = {"cls": ocfg["cls"], "kw": {**ocfg["kw"], "input_value": w["input"]}}
                if configs.build(ncfg).name != old_name:
                    continue
                obj.add_indicator(configs.build(ncfg) if w["form"] == "object" else configs.as_dict_form(ncfg))
                members = [((ncfg if n_ == old_name else c), n_) for c, n_ in members]
                complete[old_name] = False
                stats["replacements"] = stats.get("replacements", 0) + 1
                if w["then"] == "recalculate_one":
                    obj.recalculate(old_name)
                    complete[old_name] = True
                elif w["then"] == "remove" and len(members) > 1:
                    obj.remove_indicator(old_name)
                    members = [(c, n_) for c, n_ in members if n_ != old_name]
                    complete.pop(old_name, None)
                    left = {k for cs in lists().values() for c in cs for k in list(vars(c)["indicators"]) + list(vars(c)["sub_indicators"]) if k == old_name or k.startswith(old_name + "_")}
                    others = {n_ for _, n_ in members}
                    left = {k for k in left if not any(k == o or k.startswith(o + "_") for o in others)}
                    if left:
                        V("remove-purges", "C14|replace-remove-leftover", f"after replacing and removing {old_name!r} the candles still carry {sorted(left)[:6]}")
                changing += 1
            elif op == "remove":
                if len(members) <= 1:
                    continue
                rm = member_name(w.get("m", 0))
                obj.remove_indicator(rm)
                members = [(c, n_) for c, n_ in members if n_ != rm]
                complete.pop(rm, None)
                after = tops(lists())
                stats["postconditions_checked"] = stats.get("postconditions_checked", 0) + 1
                for ln, col in after.items():
                    for i, (ts, ohlcv, ind) in enumerate(col):
                        if rm in ind:
                            V("remove-purges", "C14|remove-kept-reading", f"remove_indicator({rm!r}) left its reading on list {ln!r} candle {i}")
                            break
                        bind = before_top[ln][i][2]
                        bad = [k for k, v in bind.items() if k != rm and not same(ind.get(k, "<gone>"), v)]
                        if bad:
                            V("remove-nothing-else", "C14|remove-touched-other", f"remove_indicator({rm!r}) changed {bad[0]} on list {ln!r} candle {i}")
                            break
                    if viol:
                        break
                changing += 1
        # ---------------- final: calculate() converges to batch
        if not viol:
            obj.calculate()
            final = full(lists())
            if standalone:
                tw = configs.build(members[0][0], candles=rows_to_candles(rows[:pos]), **kw)
                tw.calculate()
                twl = {"": tw.candles}
            else:
                tw = Hexital("t", rows_to_candles(rows[:pos]), [configs.build(c) for c, _ in members], **kw)
                tw.calculate()
                twl = dict(tw.get_candles())
            want = full(twl)
            stats["final_batch_comparisons"] = 1
            for ln, col in final.items():
                wcol = want.get(ln)
                if wcol is None:
                    # a manager created for a member that was removed later may legitimately linger; it must hold no readings of live members
                    continue
                if len(col) != len(wcol):
                    V("final-batch-oracle", "C14|final-candle-count", f"list {ln!r}: {len(col)} candles vs batch {len(wcol)}")
                    break
                for i, (g, w_) in enumerate(zip(col, wcol)):
                    if g["ts"] != w_["ts"] or g["ohlcv"] != w_["ohlcv"]:
                        V("final-batch-oracle", "C14|final-candles", f"list {ln!r} candle {i}: {g['ts']} {g['ohlcv']} vs batch {w_['ts']} {w_['ohlcv']}")
                        break
                    if not same(live(g["ind"]), live(w_["ind"])):
                        ks = sorted(set(g["ind"]) | set(w_["ind"]))
                        k = next(k for k in ks if not same(live(g["ind"]).get(k, "<absent>"), live(w_["ind"]).get(k, "<absent>")))
                        ccls = next((cls_of(c) for c, n_ in members if n_ == k), "removed-or-unknown")
                        V("final-batch-oracle", f"C14|final-reading-differs|{ccls}",
                          f"list {ln!r} candle {i}/{len(col)} key {k}: after program {short(g['ind'].get(k, '<absent>'), 150)} batch {short(w_['ind'].get(k, '<absent>'), 150)}; program={short([x['op'] for x in case['program']], 300)}")
                        break
                    if set(live(g["sub"])) != set(live(w_["sub"])):
                        extra = sorted(set(live(g["sub"])) - set(live(w_["sub"])))
                        missing = sorted(set(live(w_["sub"])) - set(live(g["sub"])))
                        V("final-batch-oracle", "C14|final-helper-keys", f"list {ln!r} candle {i}: helper keys extra {extra[:5]} missing {missing[:5]} vs batch")
                        break
                    if not same(g["sub"], w_["sub"]):
                        stats["helper_value_divergence"] = stats.get("helper_value_divergence", 0) + 1
                if viol:
                    break
            nontrivial = changing >= 3 and any(v is not None and v != {} for col in final.values() for s in col for v in s["ind"].values())
        else:
            nontrivial = True
    except Exception as e:
        import traceback
        V("exception", f"C14|raises|{type(e).__name__}|{'standalone' if standalone else 'hexital'}",
          (repr(e) + " members=" + str([n_ for _, n_ in members]) + " program=" + short([x['op'] for x in case['program']], 200) + traceback.format_exc()[-500:])[:1200])
        nontrivial = True
    return {"violations": viol[:2], "nontrivial": nontrivial, "stats": stats,
            "sample": {"standalone": standalone, "tf": tf, "members": case["members"], "preload": case["preload"],
                       "program": case["program"][:25], "n_rows": len(rows)}}


def live(d):
    """A key whose value is None (or a dict of Nones) is observationally the same as an absent key."""
    return {k: v for k, v in d.items() if v is not None and not (isinstance(v, dict) and all(x is None for x in v.values()))}


def diff_tops(a, b):
    for ln in a:
        if ln not in b:
            return f"list {ln!r} vanished"
        for i, (x, y) in enumerate(zip(a[ln], b[ln])):
            if not same(x, y):
                ks = sorted(set(x[2]) | set(y[2]))
                k = next((k for k in ks if not same(x[2].get(k, "<absent>"), y[2].get(k, "<absent>"))), None)
                return f"list {ln!r} candle {i}/{len(a[ln])} key {k}: before {short(x[2].get(k, '<absent>') if k else x, 150)} after {short(y[2].get(k, '<absent>') if k else y, 150)}"
        if len(a[ln]) != len(b[ln]):
            return f"list {ln!r} length {len(a[ln])} -> {len(b[ln])}"
    return "?"
