"""C02 - readings of closed candles are final: no look-ahead, no repainting.

Monitors: state recorder after every append (offline prefix checker over the snapshot sequence);
batch-prefix twins; value perturbation of everything after a cut; candle-access tracer (M3) as a
director - every read of a list position beyond the index being computed is logged and the later
candle it touched is perturbed on its own; the verdict is always value-based.
"""
from __future__ import annotations

from hxv import boot
from hxv.core import rows_to_candles, same, short, snapshot, ts_of
from hxv.drive import encode_chunk
from hxv.gen import configs, schedules, streams
from hxv.gen.timeframes import pick_timeframe
from hxv.instr.monlist import MonitoredList, Tracer
from hxv.ref.resample import label_of, tf_seconds

boot.boot()
from hexital import Hexital  # noqa: E402

ID = "C02"
LEVEL = "exploration"
CASE_TIMEOUT = 90
RULE = ("case = (1-3 indicator configs standalone or in a Hexital with mixed timeframes, stream, timeframe/fill, append schedule). "
        "(a) after every append the closed part of every candle list (all candles on the base timeframe, all but the last bucket "
        "on a collapsing one) must be a prefix of every later snapshot; (b) batch over a prefix of the rows agrees with batch over "
        "all rows on the closed candles; (c) scaling prices and volumes of all rows after a cut leaves batch readings of closed "
        "candles unchanged; (d) each look-ahead read the tracer observed is followed up by perturbing exactly that later candle. "
        "non-trivial: >= 3 snapshots and a closed prefix that reaches >= 3 candles past the first non-None reading. distinct: case digest.")
ASSUMPTIONS = ["no lifespan trimming in this workload (C15 covers it)",
               "Hexital-level gap filling is not combined with member timeframes here (recorded C08 finding, classified exactly there)",
               "tracer-directed perturbation (d) runs on the base timeframe only (positions are candle positions)"]


def plan(tier):
    if tier == "thorough":
        return {"shards": 16, "cases": 40000, "shard_timeout_s": 3000, "shard_budget_s": 1500}
    return {"shards": 16, "cases": 4000, "shard_timeout_s": 600, "shard_budget_s": 100}


def floors(tier):
    return {"distinct_nontrivial": 150, "snapshots_compared": 3000, "classes_seen": 20, "perturbation_runs": 300, "traced_computations": 10000}


def gen_case(rng, tier, idx):
    kind = rng.choice(["indicator", "indicator", "indicator", "hexital"])
    tfkind = rng.choice(["none", "collapse", "collapse_fill"])
    n = rng.randint(25, 160 if tier == "quick" else 400)
    fam = rng.choice(streams.FAMILIES)
    if tfkind == "none":
        tf, tf_s, step = None, None, rng.choice([1, 60, 300])
        rows = streams.make_rows(rng, n, fam, step, rng.choice(["regular", "dups", "jitter"]))
    else:
        tf, tf_s, step = pick_timeframe(rng)
        rows = streams.make_rows(rng, n, fam, step, rng.choice(["regular", "gaps", "jitter", "dups"]), tf_s, max_gap_buckets=10)
    cfgs = [configs.rand_config(rng, max_period=12)]
    if kind == "hexital":
        for _ in range(rng.randint(0, 2)):
            cfgs.append(configs.rand_config(rng, max_period=12))
        # member timeframes: multiples of the hexital-level one (or of the stream step)
        for c in cfgs[1:]:
            # (Hexital-level fill + member timeframe + candles at construction is the recorded C08 finding - members seeded from the
            #  already filled base - and would show up here as a live-vs-batch difference; C08 owns it, with an exact classifier)
            if rng.random() < 0.6 and tfkind != "collapse_fill":
                unit_s = tf_s or step
                mult = rng.choice([2, 3, 5])
                s = unit_s * mult
                c["kw"]["timeframe"] = f"S{s}" if s % 60 else (f"T{s // 60}" if s % 3600 else f"H{s // 3600}")
    if kind == "hexital" and rng.random() < 0.3:
        # a member that reads another member's output, registered before or after its producer (a consumer listed first never sees
        # its input on the newest candle: whatever it stores there must still be final)
        prod = cfgs[0]
        try:
            pname = configs.build(prod).name
            sample = configs.build(prod)
            fieldname = pname
            if prod["cls"] in ("MACD", "BBANDS", "KC", "STOCH", "Supertrend", "Donchian", "AROON", "ADX", "HighestLowest"):
                fieldname = pname + "." + {"MACD": "MACD", "BBANDS": "BBM", "KC": "band", "STOCH": "k", "Supertrend": "trend", "Donchian": "DCM",
                                           "AROON": "AROONOSC", "ADX": "ADX", "HighestLowest": "high"}[prod["cls"]]
            if prod["cls"] != "Amorph" and "timeframe" not in prod["kw"]:
                cons = {"cls": rng.choice(["SMA", "EMA", "WMA", "RMA", "StandardDeviation", "TSI"]), "kw": {"period": rng.choice([2, 3, 4]), "input_value": fieldname}}
                if rng.random() < 0.5:
                    cfgs.insert(0, cons)
                else:
                    cfgs.append(cons)
        except Exception:
            pass
    sch = schedules.rand_schedule(rng, n, bucket=(tf_s // step if tf_s else None))
    return {"kind": kind, "cfgs": cfgs, "rows": rows, "tf": tf, "fill": tfkind == "collapse_fill", "schedule": sch,
            "family": fam, "cut": rng.randint(max(1, n // 3), n - 2), "factor": rng.choice([1.37, 0.61, 2.0]),
            # Heikin-Ashi candles are a causal recurrence too: what is shown for a closed candle (converted OHLC included) must be final
            "ha": tfkind != "collapse_fill" and rng.random() < 0.2}


def make(case, rows, monitored=False):
    candles = rows_to_candles(rows)
    if monitored:
        candles = MonitoredList(candles)
    kw = {}
    if case["tf"]:
        kw = {"timeframe": case["tf"], "timeframe_fill": case["fill"]}
    if case.get("ha"):
        kw["candlestick_type"] = "HA"
    if case["kind"] == "indicator":
        obj = configs.build(case["cfgs"][0], candles=candles, **kw)
    else:
        members = [configs.build(c) for c in case["cfgs"]]
        obj = Hexital("h", candles, members, **kw)
    return obj


def lists_of(case, obj):
    """name -> (candle list, collapsing?)"""
    if case["kind"] == "indicator":
        return {"": (obj.candles, bool(case["tf"]))}
    return {name: (cs, (name != "default") or bool(case["tf"])) for name, cs in obj.get_candles().items()}


def tops(case, obj):
    out = {}
    for name, (cs, collapsing) in lists_of(case, obj).items():
        snap = [(s["ts"], s["ohlcv"], s["ind"]) for s in snapshot(cs, helpers=False)]
        out[name] = (snap, collapsing)
    return out


def closed(snap, collapsing):
    return snap[:-1] if collapsing else snap


def scale_rows(rows, start, f):
    out = [list(r) for r in rows]
    for r in out[start:]:
        r[1], r[2], r[3], r[4] = r[1] * f, r[2] * f, r[3] * f, r[4] * f
        r[5] = r[5] * 3 + 1
    return out


def run_case(case):
    rows, sch = case["rows"], case["schedule"]
    names = [c["cls"] if c["cls"] != "Amorph" else f"Amorph:{c['analysis']}" for c in case["cfgs"]]
    tfk = "collapsing" if case["tf"] else "base"
    stats = {"classes_seen": names, "kinds": {case["kind"]: 1}, "tfkinds": {tfk: 1}, "candlestick": {"HA" if case.get("ha") else "none": 1}}
    viol = []
    tag = names[0] if case["kind"] == "indicator" else "Hexital"

    # ---------------- (a) live history
    history = []
    try:
        obj = make(case, rows[:sch["preload"]])
        if sch.get("precalc") or case["kind"] == "hexital":
            obj.calculate()
            history.append(tops(case, obj))
        pos = sch["preload"]
        for size in sch["chunks"]:
            obj.append(encode_chunk(rows, pos, size, sch.get("enc", "candle")))
            pos += size
            history.append(tops(case, obj))
    except Exception as e:
        stats["live_raises"] = 1
        history = []
        live_exc = e
    min_past = 0
    for t in range(1, len(history)):
        for name, (prev, coll) in history[t - 1].items():
            cur = history[t].get(name)
            if cur is None:
                continue
            pc = closed(prev, coll)
            stats["snapshots_compared"] = stats.get("snapshots_compared", 0) + 1
            stats["closed_candles_compared"] = stats.get("closed_candles_compared", 0) + len(pc)
            for i, a in enumerate(pc):
                b = cur[0][i] if i < len(cur[0]) else None
                if b is None or not same(a, b):
                    what = "candle" if (b is None or a[:2] != b[:2]) else "reading"
                    viol.append({"monitor": "live-prefix-checker", "sig": f"C02|repaint-live|{tag}|{tfk}|{what}",
                                 "detail": f"list {name!r}: closed candle {i} changed between append {t - 1} and {t}: {short(a, 300)} -> {short(b, 300)}"})
                    break
            if viol:
                break
        if viol:
            break
    if history:
        for name, (snap, coll) in history[-1].items():
            firsts = [i for i, s in enumerate(snap) if any(v is not None and v != {} for v in s[2].values())]
            if firsts:
                min_past = max(min_past, len(closed(snap, coll)) - firsts[0])

    # ---------------- (b) batch prefix, (c) perturbation after a cut
    def batch_tops(rws):
        o = make(case, rws)
        o.calculate()
        return tops(case, o)

    try:
        full = batch_tops(rows)
    except Exception:
        stats["batch_raises"] = 1
        full = None
    if full is not None and not viol:
        k = case["cut"]
        try:
            part = batch_tops(rows[:k])
            stats["batch_prefix_runs"] = stats.get("batch_prefix_runs", 0) + 1
            for name, (psnap, coll) in part.items():
                pc = closed(psnap, coll)
                fs = full[name][0]
                for i, a in enumerate(pc):
                    if i >= len(fs) or not same(a, fs[i]):
                        viol.append({"monitor": "batch-prefix", "sig": f"C02|batch-prefix|{tag}|{tfk}",
                                     "detail": f"list {name!r}: candle {i}: batch over {k} rows {short(a, 300)} vs batch over {len(rows)} rows {short(fs[i] if i < len(fs) else None, 300)}"})
                        break
        except Exception as e:
            viol.append({"monitor": "batch-prefix", "sig": f"C02|batch-prefix-raises|{tag}|{tfk}", "detail": repr(e)[:300]})
        if not viol:
            try:
                pert = batch_tops(scale_rows(rows, k, case["factor"]))
                stats["perturbation_runs"] = stats.get("perturbation_runs", 0) + 1
                t_cut = ts_of(rows[k][0])
                for name, (fsnap, coll) in full.items():
                    psnap = pert[name][0]
                    # closed = candles that contain only unperturbed rows
                    if name == "" or name == "default":
                        tfname = case["tf"]
                    else:
                        tfname = name
                    for i, a in enumerate(fsnap):
                        if tfname:
                            if not a[0] < label_of(t_cut, tf_seconds(tfname)):
                                break
                        elif not (a[0] < t_cut or i < k):
                            break
                        elif i >= k:
                            break
                        stats["perturbation_candles_compared"] = stats.get("perturbation_candles_compared", 0) + 1
                        if i >= len(psnap) or not same(a, psnap[i]):
                            viol.append({"monitor": "perturbation-after-cut", "sig": f"C02|look-ahead|{tag}|{tfk}",
                                         "detail": f"list {name!r}: scaling rows after {k} by {case['factor']} changed closed candle {i}: {short(a, 300)} -> {short(psnap[i] if i < len(psnap) else None, 300)}"})
                            break
            except Exception as e:
                viol.append({"monitor": "perturbation-after-cut", "sig": f"C02|perturbed-batch-raises|{tag}|{tfk}", "detail": repr(e)[:300]})

    # ---------------- (e) "whether it was computed live or in a batch over a longer list": live closed candles == batch over all rows
    if full is not None and not viol and history:
        pts = sorted(set([0, len(history) // 3, (2 * len(history)) // 3, len(history) - 1]))
        for t in pts:
            for name, (snap, coll) in history[t].items():
                fs = full.get(name)
                if fs is None:
                    continue
                pc = closed(snap, coll)
                stats["live_vs_batch_candles_compared"] = stats.get("live_vs_batch_candles_compared", 0) + len(pc)
                for i, a in enumerate(pc):
                    if i >= len(fs[0]) or not same(a, fs[0][i]):
                        viol.append({"monitor": "live-vs-longer-batch", "sig": f"C02|live-vs-batch|{tag}|{tfk}",
                                     "detail": f"list {name!r}: closed candle {i} as computed live (after append {t}) {short(a, 300)} differs from a batch over the whole stream {short(fs[0][i] if i < len(fs[0]) else None, 300)}"})
                        break
                if viol:
                    break
            if viol:
                break

    # ---------------- (d) tracer-directed single-candle perturbation (base timeframe only)
    if full is not None and not viol and not case["tf"] and case["kind"] == "indicator":
        with Tracer() as tr:
            o = make(case, rows, monitored=True)
            o.calculate()
        stats["traced_computations"] = tr.computations
        stats["traced_reads"] = tr.reads
        stats["lookahead_reads_observed"] = getattr(tr, "lookahead_count", 0)
        seen = []
        for cname, iname, i, p in tr.lookahead:
            if (i, p) not in seen:
                seen.append((i, p))
        base = full[""][0]
        for i, p in seen[:1] + seen[len(seen) // 2:len(seen) // 2 + 1] + seen[-1:]:
            rws = scale_rows(rows, p, case["factor"])
            rws[p + 1:] = [list(r) for r in rows[p + 1:]]
            try:
                alt = batch_tops(rws)[""][0]
            except Exception:
                continue
            stats["lookahead_followups"] = stats.get("lookahead_followups", 0) + 1
            if not same(base[i], alt[i]):
                stats["lookahead_confirmed"] = stats.get("lookahead_confirmed", 0) + 1
                viol.append({"monitor": "tracer-directed-perturbation", "sig": f"C02|look-ahead|{tag}|{tfk}",
                             "detail": f"reading at candle {i} read position {p} and changes when only candle {p} is scaled: {short(base[i], 250)} -> {short(alt[i], 250)}"})
                break
    nontrivial = len(history) >= 3 and min_past >= 3
    return {"violations": viol, "nontrivial": nontrivial, "stats": stats,
            "sample": {"kind": case["kind"], "cfgs": case["cfgs"], "tf": case["tf"], "fill": case["fill"], "schedule": sch,
                       "n_rows": len(rows), "cut": case["cut"], "snapshots": len(history), "rows_head": rows[:3]}}
