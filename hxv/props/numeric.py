"""Engine shared by C04 / C05 / C06: the real indicator is run over a stream (batch or incremental),
its recorded output column is compared offline with an executable reference definition computed from
the raw candles, within a propagated rounding budget; warm-up indices are checked against [E, L]."""
from __future__ import annotations

import math

from hxv.core import rows_to_candles, short, ts_of
from hxv.drive import batch, run_schedule
from hxv.gen import configs, schedules, streams
from hxv.gen.timeframes import pick_timeframe
from hxv.ref import indicators as R
from hxv.ref.num import ANY, Num, isnum
from hxv.ref.resample import resample

FIELD = {"open": 1, "high": 2, "low": 3, "close": 4, "volume": 5}
import os as _os
HELPER_DECIMALS = int(_os.environ.get("VERIF_HELPER_DECIMALS", "15"))
FLOOR = float(_os.environ.get("VERIF_FLOOR", "1e-12"))  # relative float-noise floor added to every budget (the Num error already carries eps-terms)
OSC = {"RSI", "STOCH", "TSI", "AROON", "ADX"}


DERIVED = {"high_low": lambda b: abs(b[2] - b[3]), "realbody": lambda b: abs(b[1] - b[4])}  # candle geometry readable as an input series


def series(base, name):
    if name in DERIVED:
        return [float(DERIVED[name](b)) for b in base]
    return [float(b[FIELD[name]]) if name != "volume" else b[5] for b in base]


def isqrt(p):
    return int(math.sqrt(p))


def expected(cfg, base, got_col, s0=0, xs=None):
    """-> dict(fields={field: [exp]}, warm={field: (E, L)}, kind=...). xs overrides the input series (C04 fabricated/chained)."""
    cls, kw = cfg["cls"], cfg["kw"]
    r = kw.get("round_value", 4)
    H = HELPER_DECIMALS  # helper series are kept as calculated (not rounded): only the indicator's own output carries a rounding
    n = len(base)
    h, l, c, v = series(base, "high"), series(base, "low"), series(base, "close"), series(base, "volume")
    iv = kw.get("input_value", "close")
    if xs is None and cls in configs.HAS_INPUT:
        xs = series(base, iv)
    s = s0
    p = kw.get("period")
    one = lambda col, E, L=None: {"fields": {"": col}, "warm": {"": (E, E if L is None else L)}}  # noqa: E731
    if cls == "SMA":
        p = p or 10
        return one(R.sma(xs, p, r), s + p - 1)
    if cls == "EMA":
        p = p or 10
        return one(R.ema(xs, p, r, kw.get("smoothing", 2.0)), s + p - 1)
    if cls == "RMA":
        p = p or 10
        return one(R.rma(xs, p, r), s + p - 1)
    if cls == "WMA":
        p = p or 10
        return one(R.wma(xs, p, r), s + p - 1)
    if cls == "VWMA":
        p = p or 10
        return one(R.vwma(c, v, p, r), p - 1)
    if cls == "HMA":
        p = p or 10
        return one(R.hma(xs, p, r, H), s + p + isqrt(p) - 2)
    if cls == "TR":
        return one(R.tr(h, l, c, r), 1)
    if cls == "ATR":
        p = p or 14
        return one(R.atr(h, l, c, p, r, H), p)
    if cls == "StandardDeviation":
        p = p or 30
        return one(R.stdev(xs, p, r), s + p - 1, s + p)
    if cls == "BBANDS":
        p = p or 5
        col = R.bbands(xs, p, r, H)
        return {"fields": split(col, ("BBL", "BBM", "BBU")), "warm": {k: (p - 1, p) for k in ("BBL", "BBM", "BBU")}}
    if cls == "KC":
        p = p or 20
        col = R.kc(h, l, c, xs, p, kw.get("multiplier", 2.0), r, H)
        return {"fields": split(col, ("lower", "band", "upper")), "warm": {"band": (p - 1, p), "lower": (p, p), "upper": (p, p)}}
    if cls == "Donchian":
        p = p or 20
        return {"fields": split(R.donchian(h, l, p, r), ("DCL", "DCM", "DCU")), "warm": {k: (p - 1, p - 1) for k in ("DCL", "DCM", "DCU")}}
    if cls == "HighestLowest":
        p = p or 100
        return {"fields": split(R.highest_lowest(h, l, p, r), ("low", "high")), "warm": {"low": (0, 0), "high": (0, 0)}}
    if cls == "HighLowAverage":
        return one(R.hla(h, l, r), 0)
    if cls == "RSI":
        p = p or 14
        # RSI is a ratio: for quotes in very small units an implementation that kept its average gain/loss at 4 decimals would be
        # plainly wrong, so that allowance is only made at ordinary price scales
        lvl = sum(abs(x) for x in xs if x is not None) / max(1, sum(1 for x in xs if x is not None))
        return one(R.rsi(xs, p, r, H if lvl >= 1e-2 else 14), p)
    if cls == "MACD":
        f, sl, sg = kw.get("fast_period", 12), kw.get("slow_period", 26), kw.get("signal_period", 9)
        if sl < f:
            f, sl = sl, f
        return {"fields": split(R.macd(xs, f, sl, sg, r, H), ("MACD", "signal", "histogram")),
                "warm": {"MACD": (sl - 1, sl + sg - 2), "signal": (sl + sg - 2,) * 2, "histogram": (sl + sg - 2,) * 2}}
    if cls == "ROC":
        p = p or 10
        return one(R.roc(xs, p, r), p)
    if cls == "STOCH":
        p = p or 14
        k, d = kw.get("smoothing_k", 3), kw.get("slow_period", 3)
        return {"fields": split(R.stoch(h, l, xs, p, k, d, r, H), ("stoch", "k", "d")),
                "warm": {"stoch": (p - 1,) * 2, "k": (p + k - 2,) * 2, "d": (p + k + d - 3,) * 2}}
    if cls == "TSI":
        p = p or 25
        sp = kw.get("smooth_period") or (p // 2 + (p % 2 > 0))
        return one(R.tsi(xs, p, sp, r, H), p + sp - 1)
    if cls == "AROON":
        p = p or 14
        return {"fields": split(R.aroon(h, l, p, r), ("AROONU", "AROOND", "AROONOSC")), "warm": {k: (p, p) for k in ("AROONU", "AROOND", "AROONOSC")}}
    if cls == "ADX":
        p = p or 14
        ps = kw.get("period_signal") or p
        out = []
        for dm0 in (0.0, None):
            out.append({"fields": split(R.adx(h, l, c, p, ps, r, H, dm0), ("ADX", "DM_Plus", "DM_Neg")),
                        "warm": {"ADX": (p + ps - 1,) * 2, "DM_Plus": (p, p), "DM_Neg": (p, p)}})
        out[0]["alternatives"] = [out[1]]
        return out[0]
    if cls == "OBV":
        return one(R.obv(c, v, r), 0)
    if cls == "VWAP":
        return one(R.vwap(h, l, c, v, r), 0)
    raise KeyError(cls)


def split(col, keys):
    return {k: [None if d is None else d.get(k) for d in col] for k in keys}


def level_of(cfg, base, xs=None):
    if xs is not None:
        vals = [abs(x) for x in xs if isinstance(x, (int, float))]
    elif cfg["kw"].get("input_value") == "volume" and cfg["cls"] in configs.HAS_INPUT:
        vals = [abs(b[5]) for b in base]
    elif cfg["kw"].get("input_value") in DERIVED and cfg["cls"] in configs.HAS_INPUT:
        vals = [abs(x) for x in series(base, cfg["kw"]["input_value"])]
    else:
        vals = [abs(b[4]) for b in base]
    return max(1e-9, sum(vals) / max(1, len(vals)))


def compare_column(cls, field, got, exp, warm, cap, stats):
    """-> (violation dict | None). got/exp lists per index."""
    E, L = warm
    compared = unver = 0
    tight = 0.0
    first = next((i for i, g in enumerate(got) if g is not None), None)
    if first is not None and first < E:
        return {"kind": "warm-up-early", "detail": f"field {field or 'scalar'}: first reading at {first}, the definition's inputs only exist from {E}"}, compared, unver, tight
    if (first is None and len(got) > L and exp[L] is not None) or (first is not None and first > L):
        if not (len(exp) > L and exp[L] is ANY):
            return {"kind": "warm-up-late", "detail": f"field {field or 'scalar'}: first reading at {first}, documented warm-up index {L} (defined from {E}); reference at {L}: {exp[L] if len(exp) > L else None}"}, compared, unver, tight
    for i, (g, e) in enumerate(zip(got, exp)):
        if g is None:
            if e is not None and e is not ANY and i >= L and first is not None and i > first:
                return {"kind": "missing-after-start", "detail": f"field {field or 'scalar'} None at {i} but defined ({e})"}, compared, unver, tight
            continue
        if e is None:
            return {"kind": "value-where-undefined", "detail": f"field {field or 'scalar'} = {g!r} at {i} where the definition has no value (E={E})"}, compared, unver, tight
        if e is ANY:
            unver += 1
            continue
        if isinstance(g, bool) or not isinstance(g, (int, float)):
            return {"kind": "type", "detail": f"field {field or 'scalar'} at {i}: {g!r}"}, compared, unver, tight
        budget = 4 * e.e + FLOOR * max(1.0, abs(e.v))
        if budget > cap:
            unver += 1
            continue
        compared += 1
        err = abs(g - e.v)
        if e.e > 0:
            tight = max(tight, err / e.e)
        if err > budget:
            return {"kind": "value", "detail": f"field {field or 'scalar'} at candle {i}: got {g!r}, definition gives {e.v!r} (budget {budget:.3g}, off by {err:.3g})"}, compared, unver, tight
    return None, compared, unver, tight


def check_against_reference(cfg, base, col, stats, s0=0, xs=None):
    """col = recorded as_list() of the indicator. returns list of violations (at most 1) and counters."""
    cls = cfg["cls"]
    exp = expected(cfg, base, col, s0, xs)
    alts = [exp] + exp.get("alternatives", [])
    level = level_of(cfg, base, xs)
    cap = 1.0 if cls in OSC else 0.005 * level
    results = []
    for alt in alts:
        viol, comp, unv, tight = None, 0, 0, 0.0
        for f, ecol in alt["fields"].items():
            gcol = [(g.get(f) if isinstance(g, dict) else None) if f else g for g in col]
            if f == "" and any(isinstance(g, dict) for g in col):
                viol = {"kind": "type", "detail": "dict reading where a scalar is defined"}
                break
            v, c_, u_, t_ = compare_column(cls, f, gcol, ecol, alt["warm"][f], cap, stats)
            comp += c_
            unv += u_
            tight = max(tight, t_)
            if v:
                v["field"] = f
                viol = v
                break
        results.append((viol, comp, unv, tight))
        if viol is None:
            break
    viol, comp, unv, tight = results[-1] if results[-1][0] is None else results[0]
    stats["readings_compared"] = stats.get("readings_compared", 0) + comp
    stats["unverifiable_points"] = stats.get("unverifiable_points", 0) + unv
    stats["max:tightness_err_over_bound"] = max(stats.get("max:tightness_err_over_bound", 0.0), round(tight, 3))
    tb = stats.setdefault("tightness_by_class", {})
    tb[f"max:{cls}"] = max(tb.get(f"max:{cls}", 0.0), round(tight, 3))
    return viol, comp, unv


# ------------------------------------------------------------------ special: Supertrend, STDEVTHRES, Counter
def check_supertrend(cfg, base, col, stats):
    kw = cfg["kw"]
    r = kw.get("round_value", 4)
    p = kw.get("period", 7)
    h, l, c = series(base, "high"), series(base, "low"), series(base, "close")
    ref = R.SupertrendRef(h, l, c, p, kw.get("multiplier", 3.0), r, HELPER_DECIMALS)
    level = level_of(cfg, base)
    comp = 0
    for i, g in enumerate(col):
        if not isinstance(g, dict):
            return {"kind": "type", "detail": f"candle {i}: {g!r}"}, comp, 0
        exp, ncand = ref.step(i, g)
        if ncand is None:
            if g.get("trend") is not None or g.get("long") is not None or g.get("short") is not None or g.get("direction") != 1:
                return {"kind": "warm-up-early", "detail": f"candle {i}: {g} before ATR exists (trend must be None, direction 1)"}, comp, 0
            continue
        if g.get("trend") is None:
            if i >= p:
                return {"kind": "warm-up-late", "detail": f"candle {i}: trend None although ATR_{p} exists ({ref.atr[i]}); documented warm-up index {p}"}, comp, 0
            ref.restart()  # implementation has not started: restart the reference with it
            continue
        if g.get("direction") != exp["direction"]:
            return {"kind": "value", "detail": f"candle {i}: direction {g.get('direction')} but the definition gives {exp['direction']} (close {c[i]}, prev bands {ref.pu}, {ref.pl})", "field": "direction"}, comp, 0
        for f in ("trend", "long", "short"):
            e, gv = exp[f], g.get(f)
            if e is None:
                if gv is not None:
                    return {"kind": "value", "detail": f"candle {i}: {f}={gv} must be None with direction {exp['direction']}", "field": f}, comp, 0
                continue
            budget = 4 * e.e + FLOOR * abs(e.v)
            if budget > 0.005 * level:
                stats["unverifiable_points"] = stats.get("unverifiable_points", 0) + 1
                continue
            comp += 1
            if gv is None or abs(gv - e.v) > budget:
                return {"kind": "value", "detail": f"candle {i}: {f}={gv} definition {e.v} (budget {budget:.3g}); direction {exp['direction']}", "field": f}, comp, 0
    stats["near_ties"] = stats.get("near_ties", 0) + ref.near_ties
    stats["supertrend_exact_ties"] = stats.get("supertrend_exact_ties", 0) + ref.exact_ties
    stats["readings_compared"] = stats.get("readings_compared", 0) + comp
    return None, comp, 0


def check_stdevthres(cfg, base, col, stats):
    kw = cfg["kw"]
    p = kw.get("period", 10)
    xs = series(base, kw.get("input_value", "close"))
    adm = R.stdevthres(xs, p, kw.get("multiplier", 2.0), min(4, kw.get("round_value", 4)))
    comp = 0
    for i, g in enumerate(col):
        if i in (p - 1, p):
            # sigma may start at p-1 (pandas-ta fixture) or p (code): at p-1 either flag; at p the flag must follow the definition
            if i == p - 1:
                if g not in (True, False):
                    return {"kind": "type", "detail": f"candle {i}: {g!r}"}, comp, 0
                continue
        if g is None or not isinstance(g, bool):
            return {"kind": "type", "detail": f"candle {i}: flag is {g!r}, expected a bool"}, comp, 0
        if len(adm[i]) == 2:
            stats["near_ties"] = stats.get("near_ties", 0) + 1
            continue
        comp += 1
        if g not in adm[i]:
            return {"kind": "value", "detail": f"candle {i}: flag {g} but |dx|={abs(xs[i] - xs[i - 1]) if i else None} vs multiplier*sigma => {adm[i]}"}, comp, 0
    stats["readings_compared"] = stats.get("readings_compared", 0) + comp
    return None, comp, 0


def check_counter(cfg, base, col, stats):
    kw = cfg["kw"]
    xs = [b[FIELD[kw["input_value"]]] for b in base]
    want = R.counter(xs, kw.get("count_value", True))
    for i, (g, w) in enumerate(zip(col, want)):
        if g != w or isinstance(g, bool):
            return {"kind": "value", "detail": f"candle {i}: Counter={g!r}, run length of {kw['input_value']}=={kw.get('count_value', True)!r} is {w}"}, i, 0
    stats["readings_compared"] = stats.get("readings_compared", 0) + len(col)
    return None, len(col), 0


SPECIAL = {"Supertrend": check_supertrend, "StandardDeviationThreshold": check_stdevthres, "Counter": check_counter}


# ------------------------------------------------------------------ generic case (price-field input)
def gen_price_case(rng, tier, classes):
    cls = rng.choice(classes)
    cfg = {"cls": cls, "kw": configs.rand_kw(rng, cls, allow_input=True, max_period=20)}
    if rng.random() < 0.5:
        cfg["kw"]["round_value"] = rng.choice([6, 8, 10, 12])
    elif rng.random() < 0.2:
        cfg["kw"]["round_value"] = rng.choice([2, 3])
    else:
        cfg["kw"].pop("round_value", None)
    if cls in ("SMA", "EMA", "RMA", "WMA", "HMA", "StandardDeviation", "MACD", "TSI") and rng.random() < 0.05:
        cfg["kw"]["input_value"] = rng.choice(list(DERIVED))  # a candle's geometry (its range, its body) is a legitimate input series
    if rng.random() < 0.04:
        cfg["kw"]["name_suffix"] = rng.choice(["1.5", "v2.0", "a"])  # user-chosen name parts (dots included) must not change what is computed
    lb = configs.lookback(cfg)
    n = rng.randint(max(40, lb + 12), max(60, lb + 12, 300 if tier == "thorough" else 200))
    fam = rng.choice(["walk", "walk", "spiky", "flat_runs", "flat_start", "mono_start", "zero_vol", "zero_vol_start", "equal_vol", "trend_up", "trend_down", "plateau", "scale", "dyadic"])
    if cls in ("RSI", "ROC", "AROON", "STOCH") and rng.random() < 0.06:
        fam = "tiny"
    if cls in ("VWAP", "VWMA", "OBV") and rng.random() < 0.15:
        fam = "frac_vol"
    if fam in ("zero_vol", "zero_vol_start") and cls in configs.VOLUME_OK and rng.random() < 0.6:
        cfg["kw"]["input_value"] = "volume"  # a legitimately zero input is what these families are for
    if rng.random() < 0.2:
        tf, tf_s, step = pick_timeframe(rng)
        rows = streams.make_rows(rng, n, fam, step, rng.choice(["regular", "jitter", "gaps"]), tf_s, max_gap_buckets=6)
        cfg["kw"]["timeframe"] = tf
        bucket = max(1, tf_s // step)
    else:
        rows = streams.make_rows(rng, n, fam, 60)
        bucket = None
    mode = "batch" if rng.random() < 0.7 else "incremental"
    sch = schedules.rand_schedule(rng, n, bucket=bucket, encs=("candle", "candle", "dict", "list", "mixed")) if mode == "incremental" else None
    return {"kind": "price", "cfg": cfg, "rows": rows, "family": fam, "mode": mode, "schedule": sch}


def run_price_case(case, prop):
    cfg, rows = case["cfg"], case["rows"]
    cls = cfg["cls"]
    stats = {"classes_seen": [cls], "families_seen": [case["family"]], "modes": {case["mode"]: 1}, "round_values": [f"r{cfg['kw'].get('round_value', 4)}"]}
    try:
        ind = batch(cfg, rows) if case["mode"] == "batch" else run_schedule(cfg, rows, case["schedule"])
    except Exception as e:
        stats["raises_left_to_C09"] = 1
        return {"violations": [], "nontrivial": False, "stats": stats}
    tf = cfg["kw"].get("timeframe")
    drows = [(ts_of(r_[0]), *r_[1:]) for r_ in rows]
    base = resample(drows, tf) if tf else drows
    col = ind.as_list()
    if len(col) != len(base):
        stats["candle_count_mismatch_left_to_C03"] = 1
        return {"violations": [], "nontrivial": False, "stats": stats}
    f = SPECIAL.get(cls)
    if f:
        viol, comp, unv = f(cfg, base, col, stats)
    else:
        viol, comp, unv = check_against_reference(cfg, base, col, stats)
    out = []
    if viol:
        out.append({"monitor": "reference-definition", "sig": f"{prop}|{viol['kind']}|{cls}" + (f"|{viol['field']}" if viol.get("field") else ""),
                    "detail": f"{ind.name} ({case['mode']}, family {case['family']}): {viol['detail']}; cfg={short(cfg, 200)}"})
    total = comp + unv
    nontrivial = comp >= 10 and (total == 0 or unv <= 0.2 * total)
    if comp and unv > 0.2 * total:
        stats["discarded_mostly_unverifiable"] = 1
    return {"violations": out, "nontrivial": nontrivial, "stats": stats,
            "sample": {"cfg": cfg, "family": case["family"], "mode": case["mode"], "n_rows": len(rows), "rows_head": rows[:3],
                       "column_tail": col[-2:], "readings_compared": comp, "unverifiable": unv}}
