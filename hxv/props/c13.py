"""C13 - indicators sharing candles do not interfere with one another.

Monitors: state recorder (M1) on the target's top-level column in (1) a Hexital holding the target
alone, (2) Hexitals holding target + others in both registration orders, (3) immediately after
purge / recalculate / remove_indicator aimed at another member, (4) after further appends and a final
calculate(). Oracle: exact equality of the target's column everywhere.
"""
from __future__ import annotations

from hxv import boot
from hxv.core import rows_to_candles, same, short
from hxv.drive import encode_chunk
from hxv.gen import configs, streams
from hxv.gen.timeframes import pick_timeframe

boot.boot()
from hexital import Hexital  # noqa: E402

ID = "C13"
LEVEL = "exploration"
CASE_TIMEOUT = 60
RULE = ("case = (2-3 member configs with distinct top-level names and price-field inputs, chosen for hostile *name relationships* "
        "(prefix/substring names, composites next to a top-level indicator named like their helper, composites sharing helpers) plus "
        "random unrelated pairs as control; stream; optional Hexital-level collapsing timeframe; maintenance program aimed at the "
        "non-target members). non-trivial: the target has >= 1 non-None reading and the program contains >= 1 purge/recalculate/remove. "
        "distinct: case digest.")
ASSUMPTIONS = ["members take price fields as input, never one another", "top-level names are distinct (equal names are outside the property)",
               "a user naming an indicator exactly like another indicator's internal helper series is not generated"]


def plan(tier):
    if tier == "thorough":
        return {"shards": 16, "cases": 60000, "shard_timeout_s": 3000, "shard_budget_s": 1500}
    return {"shards": 16, "cases": 3000, "shard_timeout_s": 600, "shard_budget_s": 100}


def floors(tier):
    return {"distinct_nontrivial": 300, "columns_compared": 5000, "pair_kinds": 6, "ops_checked": 2000}


def same_class_pair(rng):
    """two instances of one composite class with different parameters: their internal helper series must not share names"""
    cls = rng.choice(["HMA", "KC", "MACD", "Supertrend", "STOCH", "TSI", "ADX", "RSI", "VWAP", "BBANDS", "StandardDeviation", "StandardDeviationThreshold", "ATR"])
    if cls == "HMA":
        a, b = rng.sample([4, 9, 16, 25], 2)
        return {"cls": cls, "kw": {"period": a}}, {"cls": cls, "kw": {"period": b}}
    if cls == "MACD":
        return ({"cls": cls, "kw": {"fast_period": 3, "slow_period": 6, "signal_period": 3}}, {"cls": cls, "kw": {"fast_period": 4, "slow_period": 9, "signal_period": 4}})
    if cls == "TSI":
        return {"cls": cls, "kw": {"period": 4}}, {"cls": cls, "kw": {"period": 6}}  # names differ: TSI_4_2 / TSI_6_3
    a, b = rng.sample([2, 3, 5, 7], 2)
    return {"cls": cls, "kw": {"period": a}}, {"cls": cls, "kw": {"period": b}}


def hostile_pair(rng):
    p = rng.choice([2, 3, 5])
    kinds = [
        ("prefix-period", lambda: ({"cls": c, "kw": {"period": p}}, {"cls": c, "kw": {"period": p * 10 + rng.randint(0, 4)}})),
        ("suffix-name", lambda: ({"cls": c, "kw": {"period": p}}, {"cls": c, "kw": {"period": p, "name_suffix": "x", "input_value": "high"}})),
        ("tr-atr", lambda: ({"cls": "TR", "kw": {}}, {"cls": "ATR", "kw": {"period": p}})),
        ("atr-atr", lambda: ({"cls": "ATR", "kw": {"period": p}}, {"cls": "ATR", "kw": {"period": p + 9}})),
        ("bbands-sma", lambda: ({"cls": "BBANDS", "kw": {"period": p}}, {"cls": "SMA", "kw": {"period": p, "input_value": "high"}})),
        ("bbands-stdev", lambda: ({"cls": "BBANDS", "kw": {"period": p}}, {"cls": "StandardDeviation", "kw": {"period": p, "input_value": "low"}})),
        ("kc-atr", lambda: ({"cls": "KC", "kw": {"period": p}}, {"cls": "ATR", "kw": {"period": p}})),
        ("supertrend-atr", lambda: ({"cls": "Supertrend", "kw": {"period": p}}, {"cls": "ATR", "kw": {"period": p}})),
        ("adx-atr", lambda: ({"cls": "ADX", "kw": {"period": p}}, {"cls": "ATR", "kw": {"period": p}})),
        ("adx-rma", lambda: ({"cls": "ADX", "kw": {"period": p}}, {"cls": "RMA", "kw": {"period": p}})),
        ("stdevthres-stdev", lambda: ({"cls": "StandardDeviationThreshold", "kw": {"period": p}}, {"cls": "StandardDeviation", "kw": {"period": p, "input_value": "open"}})),
        ("macd-ema", lambda: ({"cls": "MACD", "kw": {"fast_period": 3, "slow_period": 6, "signal_period": 3}}, {"cls": "EMA", "kw": {"period": 3, "input_value": "high"}})),
        ("hma-wma", lambda: ({"cls": "HMA", "kw": {"period": 9}}, {"cls": "WMA", "kw": {"period": 9, "input_value": "low"}})),
        ("stoch-sma", lambda: ({"cls": "STOCH", "kw": {"period": p, "smoothing_k": 3}}, {"cls": "SMA", "kw": {"period": 3, "input_value": "high"}})),
        ("tsi-ema", lambda: ({"cls": "TSI", "kw": {"period": 4}}, {"cls": "EMA", "kw": {"period": 4, "input_value": "open"}})),
        ("donchian-hl", lambda: ({"cls": "Donchian", "kw": {"period": p}}, {"cls": "HighestLowest", "kw": {"period": p}})),
        ("same-class-composites", lambda: same_class_pair(rng)),
        ("amorph-amorph", lambda: ({"cls": "Amorph", "analysis": "highest", "kw": {"indicator": "high", "length": p}},
                                   {"cls": "Amorph", "analysis": "highestbar", "kw": {"indicator": "high", "length": p}})),
    ]
    c = rng.choice(["EMA", "SMA", "WMA", "RMA", "ATR", "RSI"])
    name, f = rng.choice(kinds)
    a, b = f()
    if name == "suffix-name" and c == "ATR":
        b["kw"].pop("input_value")
        a["kw"]["period"] = p + 1
    return name, [a, b]


def gen_case(rng, tier, idx):
    if rng.random() < 0.04:
        n = rng.randint(30, 80)
        return {"shared_args": True, "fn": rng.choice(["highest", "lowest", "rising", "mean_rising", "value_range", "highestbar"]),
                "lengths": rng.sample([2, 3, 5, 7, 9], 2), "rows": streams.make_rows(rng, n, "walk", 60)}
    if rng.random() < 0.75:
        kind, cfgs = hostile_pair(rng)
        if rng.random() < 0.3:
            cfgs.append(configs.rand_config(rng, max_period=10, allow_input=False))
    else:
        kind = "random"
        cfgs = [configs.rand_config(rng, max_period=10, allow_input=False) for _ in range(rng.choice([2, 3]))]
    if rng.random() < 0.3:
        tf, tf_s, step = pick_timeframe(rng)
        mode = rng.choice(["regular", "jitter", "gaps"])
    else:
        tf, tf_s, step, mode = None, None, 60, "regular"
    n = rng.randint(40, 140)
    rows = streams.make_rows(rng, n, rng.choice(["walk", "walk", "flat_runs", "spiky"]), step, mode, tf_s, max_gap_buckets=8)
    cut1 = rng.randint(n // 3, n - 10)
    if tf is None and rng.random() < 0.3:
        # all members on one shared member timeframe (one non-default manager for all of them); sometimes maintenance comes early,
        # while the target is still warming up on the few collapsed candles
        mtf = rng.choice(["T2", "T3", "T5"])
        for c in cfgs:
            c["kw"]["timeframe"] = mtf
        if rng.random() < 0.5:
            cut1 = rng.randint(8, 20)
        if rng.random() < 0.5:
            # one member carries its own fill flag (ignored inside a Hexital, where the Hexital-level setting rules): the others, sharing
            # its timeframe, must not inherit it whatever the registration order; needs gaps to be visible
            rng.choice(cfgs)["kw"]["timeframe_fill"] = True
            rows = streams.make_rows(rng, n, "walk", 60, "gaps", 300, max_gap_buckets=6)
    extra = {}
    if tf is None and not any(c["kw"].get("timeframe") for c in cfgs) and rng.random() < 0.2:
        # nested member timeframes (one divides the other), a long history with gaps already there when the managers are created,
        # Hexital-level gap filling on or off: what one member's manager holds must not leak into the other's, in any registration order
        a = rng.choice([1, 2, 5])
        tfs = [f"T{a}", f"T{a * rng.choice([2, 3])}"]
        rng.shuffle(tfs)
        for c, t_ in zip(cfgs, tfs + [tfs[0]]):
            c["kw"]["timeframe"] = t_
        rows = streams.make_rows(rng, n, rng.choice(["walk", "spiky"]), 60, "gaps", a * 60, max_gap_buckets=8)
        extra = {"fill": rng.random() < 0.7, "pre": rng.randint(n // 3, n // 2)}
        cut1 = rng.randint(extra["pre"] + 6, n - 4)
    ops = [rng.choice(["purge", "recalculate", "remove", "purge+calc"]) for _ in range(rng.randint(1, 3))]
    return {**extra, "cfgs": cfgs, "pair_kind": kind, "rows": rows, "tf": tf, "cut1": cut1, "ops": ops, "chunk": rng.choice([1, 1, 3, 7]),
            "shared_list": tf is None and rng.random() < 0.25 and not any(c["kw"].get("timeframe") for c in cfgs)}


def col(hx, name):
    ind = hx.indicators.get(name)
    cs = ind.candles if ind is not None else hx.candles()
    return [(vars(c)["timestamp"], vars(c)["indicators"].get(name)) for c in cs]


def feed(hx, rows, start, end, chunk):
    pos = start
    while pos < end:
        size = min(chunk, end - pos)
        hx.append(encode_chunk(rows, pos, size, "candle"))
        pos += size


def cls_of(c):
    return c["cls"] if c["cls"] != "Amorph" else f"Amorph:{c['analysis']}"


def run_shared_list(case):
    """Standalone indicators registered on one shared candle list (no Hexital): purge()/recalculate() of one must leave the other alone."""
    cfgs, rows = case["cfgs"], case["rows"]
    stats = {"pair_kinds": [case["pair_kind"]], "modes": {"shared-list": 1}}
    viol = []
    names = [configs.build(c).name for c in cfgs]
    if len(set(names)) != len(names):
        return {"violations": [], "nontrivial": False, "stats": {"skipped_equal_names": 1}}
    nontrivial = False
    try:
        for t, tcfg in enumerate(cfgs):
            alone = configs.build(tcfg, candles=rows_to_candles(rows))
            alone.calculate()
            want = [vars(c)["indicators"].get(alone.name) for c in alone.candles]
            cs = rows_to_candles(rows)
            inds = [configs.build(c, candles=cs) for c in cfgs]
            for i in inds:
                i.calculate()
            target = inds[t]
            pair = f"{cls_of(tcfg)}<-{'+'.join(sorted(cls_of(c) for k, c in enumerate(cfgs) if k != t))}"

            def col():
                return [vars(c)["indicators"].get(target.name) for c in cs]

            stats["columns_compared"] = stats.get("columns_compared", 0) + 1
            if not same(col(), want):
                viol.append({"monitor": "presence-twin", "sig": f"C13|presence|{pair}", "detail": f"{target.name} on a shared list differs from {target.name} alone"})
                break
            for k, op in enumerate(case["ops"]):
                other = inds[(t + 1 + k) % len(inds)]
                if other is target:
                    continue
                if op in ("purge", "remove"):
                    other.purge()
                elif op == "recalculate":
                    other.recalculate()
                else:
                    other.purge()
                    other.calculate()
                stats["ops_checked"] = stats.get("ops_checked", 0) + 1
                stats["columns_compared"] += 1
                if not same(col(), want):
                    i = next(i for i in range(len(want)) if not same(col()[i], want[i]))
                    viol.append({"monitor": "maintenance-aimed-at-other", "sig": f"C13|{op}|{pair}",
                                 "detail": f"(shared list, no Hexital) {op} of {other.name} changed {target.name} at candle {i}: {short(want[i], 150)} -> {short(col()[i], 150)}"})
                    break
            if viol:
                break
            target.calculate()
            if not same(col(), want):
                viol.append({"monitor": "continue-after-maintenance", "sig": f"C13|after-continue|{pair}", "detail": f"(shared list) {target.name} differs after maintenance on the others and calculate()"})
                break
            if any(v is not None and v != {} for v in want):
                nontrivial = True
    except Exception as e:
        import traceback
        viol.append({"monitor": "exception", "sig": f"C13|raises|{case['pair_kind']}|{type(e).__name__}", "detail": (repr(e) + traceback.format_exc()[-400:])[:700]})
    return {"violations": viol, "nontrivial": nontrivial, "stats": stats,
            "sample": {"cfgs": cfgs, "names": names, "pair_kind": case["pair_kind"], "mode": "shared-list", "ops": case["ops"], "n_rows": len(rows)}}


def run_shared_args(case):
    """Two Amorph members that receive their common analysis arguments through ONE shared `args` dict object (object and dict form):
    each must keep its own arguments, and the caller's dict must stay as it was."""
    from hexital.analysis import MOVEMENT_MAP
    from hexital.indicators import Amorph
    rows = case["rows"]
    fname, la, lb = case["fn"], case["lengths"][0], case["lengths"][1]
    f = MOVEMENT_MAP[fname]
    stats = {"pair_kinds": ["amorph-shared-args"], "modes": {"shared-args": 1}}
    viol = []
    try:
        def alone(ln):
            h = Hexital("h", rows_to_candles(rows), [Amorph(analysis=f, args={"indicator": "close"}, length=ln)])
            h.calculate()
            return h.reading_as_list(f"{fname}_{ln}")
        want = {la: alone(la), lb: alone(lb)}
        for form in ("object", "dict"):
            for order in ((la, lb), (lb, la)):
                shared = {"indicator": "close"}
                if form == "object":
                    members = [Amorph(analysis=f, args=shared, length=ln) for ln in order]
                else:
                    members = [{"analysis": fname, "args": shared, "length": ln} for ln in order]
                h = Hexital("h", rows_to_candles(rows), members)
                h.calculate()
                stats["columns_compared"] = stats.get("columns_compared", 0) + 2
                for ln in order:
                    got = h.reading_as_list(f"{fname}_{ln}")
                    if not same(got, want[ln]):
                        i = next((i for i in range(min(len(got), len(want[ln]))) if not same(got[i], want[ln][i])), -1)
                        viol.append({"monitor": "presence-twin", "sig": "C13|presence|Amorph<-Amorph|shared-args",
                                     "detail": f"{fname}_{ln} ({form} form, order {order}) differs from {fname}_{ln} alone at candle {i}: {short(got[i] if i >= 0 else got[:2], 100)} vs {short(want[ln][i] if i >= 0 else want[ln][:2], 100)}"})
                        break
                if shared != {"indicator": "close"} and not viol:
                    viol.append({"monitor": "input-guard", "sig": "C13|caller-args-dict-altered|Amorph", "detail": f"the shared args dict became {shared}"})
                if viol:
                    break
            if viol:
                break
    except Exception as e:
        import traceback
        viol.append({"monitor": "exception", "sig": f"C13|raises|amorph-shared-args|{type(e).__name__}", "detail": (repr(e) + traceback.format_exc()[-300:])[:600]})
    return {"violations": viol, "nontrivial": True, "stats": stats, "sample": {"mode": "shared-args", "fn": fname, "lengths": case["lengths"], "n_rows": len(rows)}}


def run_case(case):
    if case.get("shared_args"):
        return run_shared_args(case)
    if case.get("shared_list"):
        return run_shared_list(case)
    cfgs, rows, tf, cut1 = case["cfgs"], case["rows"], case["tf"], case["cut1"]
    kw = {"timeframe": tf} if tf else {}
    if case.get("fill"):
        kw["timeframe_fill"] = True
    pre = case.get("pre", 5)
    stats = {"pair_kinds": [case["pair_kind"]], "tfkinds": {"collapsing" if tf else ("nested-members" if "pre" in case else "base"): 1}}
    viol = []
    names = [configs.build(c).name for c in cfgs]
    if len(set(names)) != len(names):
        return {"violations": [], "nontrivial": False, "stats": {"skipped_equal_names": 1}}
    nontrivial = False
    try:
        for t, tcfg in enumerate(cfgs):
            if viol:
                break
            tname = names[t]
            others = [(c, nm) for i, (c, nm) in enumerate(zip(cfgs, names)) if i != t]
            pair = f"{cls_of(tcfg)}<-{'+'.join(sorted(cls_of(c) for c, _ in others))}"

            def mk(order):
                return Hexital("h", rows_to_candles(rows[:pre]), [configs.build(c) for c in order], **kw)

            alone = mk([tcfg])
            feed(alone, rows, pre, cut1, case["chunk"])
            base1 = col(alone, tname)
            stats["columns_compared"] = stats.get("columns_compared", 0)
            for label, order in (("target-first-others-added-later", None), ("target-first", [tcfg] + [c for c, _ in others]),
                                 ("target-last", [c for c, _ in others] + [tcfg])):
                if order is None:
                    # the others are registered later, one add_indicator call each (object or dict form), after some appends
                    hx = mk([tcfg])
                    mid = pre + (cut1 - pre) // 2
                    feed(hx, rows, pre, mid, case["chunk"])
                    for k, (c, _) in enumerate(others):
                        hx.add_indicator(configs.build(c) if k % 2 == 0 else configs.as_dict_form(c))
                    hx.calculate()
                    feed(hx, rows, mid, cut1, case["chunk"])
                    stats["added_later_registrations"] = stats.get("added_later_registrations", 0) + 1
                else:
                    hx = mk(order)
                    feed(hx, rows, pre, cut1, case["chunk"])
                got = col(hx, tname)
                stats["columns_compared"] += 1
                if not same(got, base1):
                    i = next(i for i in range(min(len(got), len(base1))) if not same(got[i], base1[i])) if len(got) == len(base1) else -1
                    viol.append({"monitor": "presence-twin", "sig": f"C13|presence|{pair}",
                                 "detail": f"{tname} differs when {[nm for _, nm in others]} are registered ({label}); candle {i}: alone {short(base1[i], 200)} together {short(got[i], 200)}"})
                    break
            if viol:
                break
            # hx is the target-last Hexital: aim the program at the other members
            for k, op in enumerate(case["ops"]):
                _, oname = others[k % len(others)]
                if oname not in hx.indicators:
                    continue
                if op == "purge":
                    hx.purge(oname)
                elif op == "recalculate":
                    hx.recalculate(oname)
                elif op == "remove":
                    hx.remove_indicator(oname)
                elif op == "purge+calc":
                    hx.purge(oname)
                    hx.calculate(oname)
                got = col(hx, tname)
                stats["ops_checked"] = stats.get("ops_checked", 0) + 1
                stats["columns_compared"] += 1
                if not same(got, base1):
                    i = next((i for i in range(min(len(got), len(base1))) if not same(got[i], base1[i])), -1)
                    viol.append({"monitor": "maintenance-aimed-at-other", "sig": f"C13|{op}|{pair}",
                                 "detail": f"{op}({oname!r}) changed {tname}: candle {i}: before {short(base1[i], 200)} after {short(got[i], 200)}"})
                    break
            if viol:
                break
            # keep going: further appends, then everything must still equal the target-alone twin
            feed(alone, rows, cut1, len(rows), case["chunk"])
            feed(hx, rows, cut1, len(rows), case["chunk"])
            hx.calculate()
            base2, got = col(alone, tname), col(hx, tname)
            stats["columns_compared"] += 1
            if not same(got, base2):
                i = next((i for i in range(min(len(got), len(base2))) if not same(got[i], base2[i])), -1)
                viol.append({"monitor": "continue-after-maintenance", "sig": f"C13|after-continue|{pair}",
                             "detail": f"{tname} after {case['ops']} on others and further appends: candle {i}: alone {short(base2[i], 200)} together {short(got[i], 200)}"})
            if any(v is not None and v != {} for _, v in base2):
                nontrivial = True
    except Exception as e:
        import traceback
        viol.append({"monitor": "exception", "sig": f"C13|raises|{case['pair_kind']}|{type(e).__name__}", "detail": (repr(e) + traceback.format_exc()[-400:])[:700]})
    return {"violations": viol, "nontrivial": nontrivial, "stats": stats,
            "sample": {"cfgs": cfgs, "names": names, "pair_kind": case["pair_kind"], "tf": tf, "ops": case["ops"], "n_rows": len(rows), "cut1": cut1}}
