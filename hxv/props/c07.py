"""C07 - work per appended candle is constant: it does not grow with history length.

Monitors: work meter (sys.monitoring PY_START + LINE, events inside indicator code counted per append)
and candle-access tracer (look-back depth and distinct candles read per computation). For each
configuration histories of length n0, 2n0, 4n0, 8n0 (thorough: 16n0) that share the same last 60
candles are built, and the same single-candle appends and one 5-candle chunk are measured on each.
"""
from __future__ import annotations

import random
from datetime import datetime, timedelta

from hxv import boot
from hxv.core import rows_to_candles, short
from hxv.gen import configs, streams
from hxv.instr.monlist import MonitoredList, Tracer
from hxv.instr.workmeter import WorkMeter

boot.boot()
from hexital import Hexital  # noqa: E402

ID = "C07"
LEVEL = "exploration"
CASE_TIMEOUT = 600
STEP_BUDGET = 400_000_000
RULE = ("case = (1 standalone indicator or 2-5 members in a Hexital, base or collapsing timeframe, optional HA; stream family walk / spiky / "
        "never-moving / never-trading / unbroken up- or down-trend through the whole history, with Counter-over-streak member sets on the "
        "latter so that a scan over a run would grow with n). Histories n0..8n0 "
        "(n0 = max(60, 3 x look-back); thorough 16n0) share the last 60 candles and the measured appends (3 singles + one chunk of 5). "
        "Oracle on logical events: W_calls and W_lines in indicator code at 8n0 <= 1.25 x at n0 + 40; per-class _calculate_reading entries "
        "equal; look-back depth equal; distinct candles read <= +2; chunk work <= 5 x single + 40. Candle-manager code is measured and "
        "reported but not decided (collapse re-walks the bucket list by design; the property is about indicator code). "
        "non-trivial: n0 beyond warm-up of every component and >= 1 _calculate_reading entry per measured append. distinct: case digest.")
ASSUMPTIONS = ["candle-manager code is decided on the base timeframe only (there it has nothing to re-walk); on a collapsing timeframe collapse re-walks the bucket list by design",
               "work = interpreter events (function entries, executed lines) inside hexital/ minus candle-manager files; no wall clock",
               "growth beyond the largest history built (8-16 n0) cannot be excluded"]
TAIL = 60
MEASURED = 8


def plan(tier):
    if tier == "thorough":
        return {"shards": 16, "cases": 1600, "shard_timeout_s": 3000, "shard_budget_s": 1500}
    return {"shards": 16, "cases": 320, "shard_timeout_s": 900, "shard_budget_s": 150}


def floors(tier):
    return {"distinct_nontrivial": 60, "appends_measured": 1500, "classes_seen": 22, "events_counted": 1000000}


def gen_case(rng, tier, idx):
    k = rng.choice([1, 1, 1, 2, 3, 5])
    cls_cycle = configs.CLASSES + ["Amorph"]
    members = []
    for j in range(k):
        if j == 0:
            cls = cls_cycle[idx % len(cls_cycle)]  # every class gets its turn as the (first) component
            members.append(configs.rand_config(rng, [cls], allow_input=False, max_period=30))
        else:
            members.append(configs.rand_config(rng, allow_input=False, max_period=20))
    for m in members:
        if rng.random() < 0.5:
            m["kw"] = {kk: v for kk, v in m["kw"].items() if kk not in ("period",)} if m["cls"] not in ("Counter",) and rng.random() < 0.3 else m["kw"]
    # whole-history stream conditions under which a data-dependent scan would grow with n: a market that never moves (TR, sigma
    # exactly 0), never trades (volume 0), or trends without a break (unbroken Counter streaks / Supertrend direction)
    family = rng.choice(["walk", "walk", "walk", "spiky", "flat", "zero_vol_all", "trend_up", "trend_down"])
    if family in ("trend_up", "trend_down", "flat", "zero_vol_all") and rng.random() < 0.5:
        p_ = rng.choice([3, 5, 7])
        members = rng.choice([
            [{"cls": "Supertrend", "kw": {"period": p_}}, {"cls": "Counter", "kw": {"input_value": f"Supertrend_{p_}.direction", "count_value": 1 if family != "trend_down" else -1}}],
            [{"cls": "Amorph", "analysis": "positive", "kw": {}}, {"cls": "Counter", "kw": {"input_value": "positive", "count_value": family == "trend_up"}}],
            [{"cls": "Counter", "kw": {"input_value": "volume", "count_value": 0}}],
            # movement over a source that is missing for the whole trend (Supertrend's opposite-side stop) or that never exists
            [{"cls": "Supertrend", "kw": {"period": p_}}, {"cls": "Amorph", "analysis": rng.choice(["highest", "lowest", "rising", "mean_falling", "value_range"]),
                                                            "kw": {"indicator": f"Supertrend_{p_}." + ("short" if family != "trend_down" else "long"), "length": 5}}],
            [{"cls": "Amorph", "analysis": rng.choice(["highest", "falling", "mean_rising", "highestbar"]), "kw": {"indicator": "no_such_reading", "length": 4}}],
            [{"cls": "Amorph", "analysis": "rising", "kw": {"indicator": "close", "length": 2}}, {"cls": "Counter", "kw": {"input_value": "rising_2", "count_value": family == "trend_up"}}],
        ])
        k = len(members)
    tfkind = rng.choice(["base", "base", "collapse"])
    per_bucket = rng.choice([1, 2, 3]) if tfkind == "collapse" else 1
    pre_op = rng.choice(["none", "none", "none", "calc_index_0", "calc_index_mid", "recalculate", "purge_calculate"])
    return {"members": members, "pre_op": pre_op, "hexital": k > 1 or rng.random() < 0.2, "tfkind": tfkind, "per_bucket": per_bucket, "ha": rng.random() < 0.25, "family": family,
            "seed": rng.randint(0, 10**9), "sizes": [1, 2, 4, 8] + ([16] if tier == "thorough" else [])}


def build_rows(case, n_buckets):
    """Histories of every size are SUFFIXES of one long stream (built for the largest size), followed by the common tail and the
    measured candles: the recent past coincides for all sizes, so data-dependent branches (a trend direction, a band flip, a sparse
    reading) coincide too and only the amount of older history differs. All timestamps sit on one grid so bucket phases coincide."""
    big = max(case["sizes"]) * n0_of(case)
    rows_all, hist_all = build_rows_full(case, big)
    want = n_buckets * case["per_bucket"]
    cut = max(0, hist_all - want)
    return rows_all[cut:], hist_all - cut


def n0_of(case):
    return max(60, 3 * max(configs.lookback(m) for m in case["members"])) + TAIL


def build_rows_full(case, n_buckets):
    pb = case["per_bucket"]
    step = 60
    tail_rows = (TAIL + MEASURED) * pb
    prefix_rows = max(0, n_buckets * pb - TAIL * pb)
    t0 = datetime(2023, 6, 1, 0, 0, 0) + timedelta(seconds=step)
    fam = case.get("family", "walk")
    rt = random.Random(f"tail:{case['seed']}")
    rp = random.Random(f"prefix:{case['seed']}:{n_buckets}")
    if fam in ("trend_up", "trend_down"):
        # one unbroken trend through prefix and tail (the tail continues where the prefix ends)
        allp = streams.prices(rt, prefix_rows + tail_rows, "trend_up")
        if fam == "trend_down":
            top = max(x[1] for x in allp) + 10.0
            allp = [(round(top - o, 2), round(top - l, 2), round(top - h, 2), round(top - c, 2), v) for o, h, l, c, v in allp]
        pre_pr, tail_pr = allp[:prefix_rows], allp[prefix_rows:]
    else:
        base = {"zero_vol_all": "walk"}.get(fam, fam)
        tail_pr = streams.prices(rt, tail_rows, base)
        pre_pr = streams.prices(rp, prefix_rows, base if base in ("flat",) else rp.choice(["walk", "spiky"]) if base in ("walk", "spiky") else base)
        if fam == "zero_vol_all":
            tail_pr = [(o, h, l, c, 0) for o, h, l, c, v in tail_pr]
            pre_pr = [(o, h, l, c, 0) for o, h, l, c, v in pre_pr]
    ts = [t0 + timedelta(seconds=step * (i - prefix_rows)) for i in range(prefix_rows + tail_rows)]
    return streams.rows_from(pre_pr + tail_pr, ts), prefix_rows + TAIL * pb


def make(case, candles):
    kw = {}
    if case["tfkind"] == "collapse":
        kw["timeframe"] = f"T{case['per_bucket']}"
    if case["ha"]:
        kw["candlestick_type"] = "HA"
    if case["hexital"]:
        return Hexital("h", candles, [configs.build(c) for c in case["members"]], **kw)
    return configs.build(case["members"][0], candles=candles, **kw)


def cls_of(c):
    return c["cls"] if c["cls"] != "Amorph" else f"Amorph:{c['analysis']}"


def run_case(case):
    lb = max(configs.lookback(m) for m in case["members"])
    n0 = max(60, 3 * lb) + TAIL
    stats = {"classes_seen": [cls_of(m) for m in case["members"]], "tfkinds": {case["tfkind"]: 1}, "families": {case.get("family", "walk"): 1},
             "pre_ops": {case.get("pre_op", "none"): 1}}
    viol = []
    per_size = {}
    pb = case["per_bucket"]
    meter = WorkMeter()
    with meter, Tracer() as tr:
        tr.per_call = {}
        for mult in case["sizes"]:
            rows, hist = build_rows(case, n0 * mult)
            obj = make(case, MonitoredList(rows_to_candles(rows[:hist])))
            obj.calculate()
            # maintenance that may leave a cursor / cache behind: the next append must still cost O(1)
            pre = case.get("pre_op", "none")
            L_ = len(obj.candles) if not case["hexital"] else len(obj.candles())
            if pre == "calc_index_0":
                obj.calculate_index(0) if not case["hexital"] else obj.calculate_index(index=0)
            elif pre == "calc_index_mid":
                obj.calculate_index(L_ // 2) if not case["hexital"] else obj.calculate_index(index=L_ // 2)
            elif pre == "recalculate":
                obj.recalculate()
            elif pre == "purge_calculate":
                obj.purge()
                obj.calculate()
            ops = []
            pos = hist
            for k in range(3):
                tr.per_call.clear()
                chunk = rows_to_candles(rows[pos:pos + pb])
                m = meter.measure(lambda: [obj.append(c) for c in chunk])
                m["depth"] = max((idx - min(ps) for (_, idx), ps in tr.per_call.items() if ps and min(ps) <= idx), default=0)
                m["touched"] = max((len(ps) for ps in tr.per_call.values()), default=0)
                ops.append(m)
                pos += pb
            tr.per_call.clear()
            chunk = rows_to_candles(rows[pos:pos + 5 * pb])
            mc = meter.measure(lambda: obj.append(chunk))
            per_size[mult] = {"singles": ops, "chunk": mc, "history": len(obj.candles) if not case["hexital"] else len(obj.candles())}
            stats["appends_measured"] = stats.get("appends_measured", 0) + 4
            stats["events_counted"] = stats.get("events_counted", 0) + sum(o["calls"]["indicator"] + o["lines"]["indicator"] for o in ops)
    lo, hi = per_size[case["sizes"][0]], per_size[case["sizes"][-1]]
    tag = "+".join(sorted(set(stats["classes_seen"]))) if len(case["members"]) == 1 else "Hexital"
    comp = cls_of(case["members"][0])
    ratio_max = 0.0
    for k in range(3):
        a, b = lo["singles"][k], hi["singles"][k]
        for what in ("calls", "lines"):
            wa, wb = a[what]["indicator"] + a[what]["hexital"], b[what]["indicator"] + b[what]["hexital"]
            ratio_max = max(ratio_max, wb / max(1, wa))
            mid = per_size[case["sizes"][1]]["singles"][k]
            wm = mid[what]["indicator"] + mid[what]["hexital"]
            # growth, not a constant data-dependent difference: beyond the slack w.r.t. the shortest history AND still growing after 2*n0
            if wb > 1.25 * wa + 40 and wb > 1.15 * wm + 20:
                viol.append({"monitor": "work-meter", "sig": f"C07|work-grows|{what}|{comp if tag != 'Hexital' else 'Hexital'}",
                             "detail": f"append #{k + 1}: {what} executed in indicator code {wa} at history {lo['history']} but {wb} at history {hi['history']} (x{case['sizes'][-1]}); per size: {[(m_, per_size[m_]['singles'][k][what]['indicator']) for m_ in case['sizes']]}"})
                break
        if viol:
            break
        if case["tfkind"] == "base":
            # on the base timeframe the candle manager has nothing to re-walk: its work (append, conversion resume, trim) is O(1) too
            ma, mb, mm = a["lines"]["manager"], b["lines"]["manager"], per_size[case["sizes"][1]]["singles"][k]["lines"]["manager"]
            if mb > 1.25 * ma + 40 and mb > 1.15 * mm + 20:
                viol.append({"monitor": "work-meter", "sig": "C07|manager-work-grows-on-base-timeframe|" + ("HA" if case["ha"] else "plain"),
                             "detail": f"append #{k + 1} on the base timeframe: lines executed in candle-manager code {ma} at history {lo['history']} but {mb} at history {hi['history']}"})
                break
        if a["calc"] != b["calc"]:
            diff = {q: (a["calc"].get(q, 0), b["calc"].get(q, 0)) for q in set(a["calc"]) | set(b["calc"]) if a["calc"].get(q, 0) != b["calc"].get(q, 0)}
            # data-dependent branches may add or drop a helper computation; only growth with n is a violation
            if any(y > x + 2 for x, y in diff.values()):
                viol.append({"monitor": "work-meter", "sig": f"C07|readings-per-append-grow|{comp if tag != 'Hexital' else 'Hexital'}",
                             "detail": f"append #{k + 1}: _calculate_reading entries differ between history {lo['history']} and {hi['history']}: {short(diff, 400)}"})
                break
            stats["calc_count_noise"] = stats.get("calc_count_noise", 0) + 1
        # a data-dependent branch may or may not read its (bounded) window; only a look-back beyond the configured windows is growth
        if b["depth"] > max(a["depth"] + 1, lb + 2) or b["touched"] > max(a["touched"] + 2, lb + 3):
            viol.append({"monitor": "candle-access-tracer", "sig": f"C07|lookback-grows|{comp if tag != 'Hexital' else 'Hexital'}",
                         "detail": f"append #{k + 1}: look-back depth {a['depth']} -> {b['depth']}, distinct candles read by one computation {a['touched']} -> {b['touched']} between history {lo['history']} and {hi['history']}"})
            break
    if not viol:
        single = max(o["lines"]["indicator"] + o["lines"]["hexital"] for o in hi["singles"])
        chunkw = hi["chunk"]["lines"]["indicator"] + hi["chunk"]["lines"]["hexital"]
        if chunkw > 5 * single + 40 and chunkw > 1.25 * (lo["chunk"]["lines"]["indicator"] + lo["chunk"]["lines"]["hexital"]) + 40:
            viol.append({"monitor": "work-meter", "sig": f"C07|chunk-work|{comp if tag != 'Hexital' else 'Hexital'}",
                         "detail": f"5-candle chunk executed {chunkw} lines vs {single} for a single append at history {hi['history']}"})
    stats["max:work_ratio_largest_vs_smallest"] = round(ratio_max, 3)
    stats["manager_lines_ratio_reported_only"] = {"le_1.25x": 1} if hi["singles"][0]["lines"]["manager"] <= 1.25 * lo["singles"][0]["lines"]["manager"] + 40 else {"grows": 1}
    nontrivial = all(sum(o["calc"].values()) >= 1 for o in hi["singles"])
    sample = {"members": case["members"], "family": case.get("family"), "pre_op": case.get("pre_op"), "hexital": case["hexital"], "tfkind": case["tfkind"], "ha": case["ha"], "n0": n0,
              "per_size": {m_: {"history": v["history"], "single_calls": [o["calls"]["indicator"] for o in v["singles"]],
                                 "single_lines": [o["lines"]["indicator"] for o in v["singles"]], "manager_lines": [o["lines"]["manager"] for o in v["singles"]],
                                 "calc": v["singles"][0]["calc"], "depth": v["singles"][0]["depth"], "chunk_lines": v["chunk"]["lines"]["indicator"]}
                           for m_, v in per_size.items()}}
    return {"violations": viol, "nontrivial": nontrivial, "stats": stats, "sample": sample}
