"""C20 - all ways of asking for a reading give the same answer.

Monitor: an agreement sweep run at several points of a program (appends, calculate, calculate_index,
purge+calculate): for every registered name (plain and dotted into every dict field), every in-range
index and its negative twin, Indicator.reading / as_list / read_candle / Hexital.reading /
reading_as_list and direct inspection of candle.indicators must agree; prev_reading == reading(-2);
has_reading <=> latest reading is not None (0 / False / 0.0 count as present) on both classes;
reading_count == trailing run of non-None.
"""
from __future__ import annotations

from hxv import boot
from hxv.core import rows_to_candles, same, short
from hxv.drive import encode_chunk
from hxv.gen import configs, streams
from hxv.gen.timeframes import pick_timeframe

boot.boot()
from hexital import Hexital  # noqa: E402

ID = "C20"
LEVEL = "exploration"
CASE_TIMEOUT = 90
RULE = ("case = (Hexital with 1-3 members biased to indicators that legitimately read 0 / False / 0.0 (Counter, STDEVTHRES, OBV on zero "
        "volume, Aroon, Amorph predicates) and dict-valued ones, 1-3 timeframes, stream, program of appends and maintenance operations with "
        "agreement sweeps in between). non-trivial: >= 1 sweep that compared >= 20 (name, index) points including >= 1 falsy-but-present "
        "reading or >= 1 dotted name. distinct: case digest.")
ASSUMPTIONS = ["index-less Indicator.reading()/prev_reading() are compared only when the last state-changing operation was an append or a full "
               "calculate(): their default position is the calculation cursor, which calculate_index() legitimately moves",
               "Hexital.reading_as_list is compared for registered names only (it documents returning [] otherwise)"]


def plan(tier):
    if tier == "thorough":
        return {"shards": 16, "cases": 100000, "shard_timeout_s": 3000, "shard_budget_s": 1500}
    return {"shards": 16, "cases": 4000, "shard_timeout_s": 600, "shard_budget_s": 100}


def floors(tier):
    return {"distinct_nontrivial": 200, "points_compared": 100000, "falsy_present_points": 2000, "dotted_points": 5000, "has_reading_checks": 2000,
            "has_reading_falsy_latest": 50}


ZERO_BIASED = [
    {"cls": "Counter", "kw": {"input_value": "volume", "count_value": 0}},
    {"cls": "Counter", "kw": {"input_value": "close", "count_value": 100.0}},
    {"cls": "StandardDeviationThreshold", "kw": {"period": 3, "multiplier": 2.0}},
    {"cls": "OBV", "kw": {}},
    {"cls": "AROON", "kw": {"period": 4}},
    {"cls": "Amorph", "analysis": "rising", "kw": {"indicator": "close", "length": 2}},
    {"cls": "Amorph", "analysis": "positive", "kw": {}},
    {"cls": "Amorph", "analysis": "doji", "kw": {}},
    {"cls": "Amorph", "analysis": "highestbar", "kw": {"indicator": "high", "length": 3}},
    {"cls": "ROC", "kw": {"period": 2}},
    {"cls": "MACD", "kw": {"fast_period": 2, "slow_period": 4, "signal_period": 2}},
    {"cls": "Supertrend", "kw": {"period": 3}},
    {"cls": "TR", "kw": {}},
    {"cls": "VWAP", "kw": {}},
]


def gen_case(rng, tier, idx):
    import copy
    if rng.random() < 0.5:
        tf, tf_s, step = pick_timeframe(rng)
    else:
        tf, tf_s, step = None, None, 60
    n = rng.randint(25, 80)
    rows = streams.make_rows(rng, n, rng.choice(["zero_vol", "flat_runs", "flat", "walk", "plateau", "equal_vol"]), step, "regular", tf_s)
    members = []
    for _ in range(rng.randint(1, 3)):
        c = copy.deepcopy(rng.choice(ZERO_BIASED)) if rng.random() < 0.7 else configs.rand_config(rng, max_period=6, allow_input=False)
        r_ = rng.random()
        if r_ < 0.35:
            s = (tf_s or step) * rng.choice([2, 3])
            c["kw"]["timeframe"] = f"S{s}" if s % 60 else (f"T{s // 60}" if s % 3600 else f"H{s // 3600}")
        elif r_ < 0.5 and tf:
            c["kw"]["timeframe"] = tf.upper()  # explicitly the Hexital-level timeframe: a separate manager next to members that inherit it
        if c["cls"] != "Amorph" and rng.random() < 0.15:
            c["kw"]["name_suffix"] = rng.choice(["a", "1.5", "v2.0.1"])  # dots are sanitised out of names: every accessor must cope
        members.append(c)
    prog = []
    left = n - 2
    while left > 0:
        k = min(left, rng.choice([1, 1, 2, 3, 7]))
        prog.append({"op": "append", "n": k})
        left -= k
        r = rng.random()
        if r < 0.25:
            prog.append({"op": "calc_index", "i": rng.choice([0, 1, 2, -2, -3, "mid"]), "m": rng.randint(0, 2)})
        elif r < 0.35:
            prog.append({"op": "purge_calc"})
        elif r < 0.45:
            prog.append({"op": "calculate"})
        if rng.random() < 0.5:
            prog.append({"op": "sweep"})
    prog.append({"op": "sweep"})
    return {"tf": tf, "rows": rows, "members": members, "program": prog}


def trailing(col):
    n = 0
    for v in reversed(col):
        if v is None:
            break
        n += 1
    return n


def run_case(case):
    rows = case["rows"]
    kw = {"timeframe": case["tf"]} if case["tf"] else {}
    stats = {}
    viol = []
    nontrivial = False

    def V(monitor, sig, detail):
        if len(viol) < 3:
            viol.append({"monitor": monitor, "sig": sig, "detail": detail})

    try:
        built = []
        names = set()
        for c in case["members"]:
            ind = configs.build(c)
            if ind.name not in names:
                names.add(ind.name)
                built.append((c, ind))
        hx = Hexital("h", rows_to_candles(rows[:2]), [i for _, i in built], **kw)
        hx.calculate()
        pos = 2
        cursor_ok = True

        def sweep():
            nonlocal nontrivial
            pts = falsy = dotted = 0
            for cfg, ind in built:
                cls = cfg["cls"] if cfg["cls"] != "Amorph" else f"Amorph:{cfg['analysis']}"
                cs = ind.candles
                L = len(cs)
                if L == 0:
                    continue
                direct = [vars(c)["indicators"].get(ind.name) for c in cs]
                fields = []
                for v in direct:
                    if isinstance(v, dict):
                        for k in v:
                            if k not in fields:
                                fields.append(k)
                for f in [None] + fields:
                    name = ind.name if f is None else f"{ind.name}.{f}"
                    want = direct if f is None else [(v.get(f) if isinstance(v, dict) else v) for v in direct]
                    al = ind.as_list(name) if f is not None else ind.as_list()
                    hal = hx.reading_as_list(name)
                    if not same(al, want):
                        V("agreement-sweep", f"C20|as_list|{cls}", f"as_list({name!r}) != direct inspection: {short(al[-4:], 150)} vs {short(want[-4:], 150)}")
                    if not same(hal, want):
                        V("agreement-sweep", f"C20|reading_as_list|{cls}", f"Hexital.reading_as_list({name!r}) != direct inspection: {short(hal[-4:], 150)} vs {short(want[-4:], 150)}")
                    for i in range(L):
                        w = want[i]
                        got = {
                            "Indicator.reading(+)": ind.reading(name, i), "Indicator.reading(-)": ind.reading(name, i - L),
                            "read_candle": ind.read_candle(cs[i], name), "Hexital.reading(+)": hx.reading(name, i), "Hexital.reading(-)": hx.reading(name, i - L),
                        }
                        pts += 1
                        if f is not None:
                            dotted += 1
                        if w is not None and not w and not isinstance(w, dict):
                            falsy += 1
                        for path, g in got.items():
                            if not same(g, w):
                                V("agreement-sweep", f"C20|{path}|{cls}", f"{path} {name!r} index {i}/{L}: {short(g, 120)} but the candle holds {short(w, 120)}")
                                break
                    # prev_reading / has_reading / reading_count
                    latest = want[-1]
                    if f is None:
                        stats["has_reading_checks"] = stats.get("has_reading_checks", 0) + 2
                        if latest is not None and not latest and not isinstance(latest, dict):
                            stats["has_reading_falsy_latest"] = stats.get("has_reading_falsy_latest", 0) + 1
                        if ind.has_reading != (latest is not None):
                            V("has_reading", f"C20|Indicator.has_reading|{'cursor-moved' if not cursor_ok else 'cursor-at-end'}",
                              f"{ind.name}.has_reading={ind.has_reading} but latest reading is {short(latest, 100)} (cursor {vars(ind)['_active_index']}, {L} candles)")
                        if hx.has_reading(ind.name) != (latest is not None):
                            V("has_reading", f"C20|Hexital.has_reading|{'falsy' if latest is not None else 'none'}",
                              f"Hexital.has_reading({ind.name!r})={hx.has_reading(ind.name)} but latest reading is {short(latest, 100)}")
                        if cursor_ok:
                            if not same(ind.reading(), latest):
                                V("default-position", f"C20|Indicator.reading()|{cls}", f"reading() {short(ind.reading(), 100)} != latest {short(latest, 100)}")
                            pv = want[-2] if L >= 2 else None
                            if not same(ind.prev_reading(), pv):
                                V("default-position", f"C20|Indicator.prev_reading()|{cls}", f"prev_reading() {short(ind.prev_reading(), 100)} != reading(-2) {short(pv, 100)}")
                    # reading_period is an index-taking accessor too: the same candle addressed by its positive and by its negative index
                    for p_ in (1, 2, 4):
                        for i in {0, L // 2, L - 1}:
                            stats["reading_period_index_pairs"] = stats.get("reading_period_index_pairs", 0) + 1
                            a_, b_ = ind.reading_period(p_, name, i), ind.reading_period(p_, name, i - L)
                            if a_ != b_:
                                V("agreement-sweep", f"C20|reading_period-index-sign|{cls}", f"reading_period({p_}, {name!r}, {i}) = {a_} but reading_period({p_}, {name!r}, {i - L}) = {b_} ({L} candles: the same candle)")
                                break
                    if f is not None:
                        # dotted names: present exactly when that FIELD's latest value is not None (the dict around it may well exist)
                        stats["has_reading_checks"] = stats.get("has_reading_checks", 0) + 1
                        stats["has_reading_dotted_checks"] = stats.get("has_reading_dotted_checks", 0) + 1
                        if hx.has_reading(name) != (latest is not None):
                            V("has_reading", f"C20|Hexital.has_reading|dotted-{'falsy' if latest is not None else 'none'}",
                              f"Hexital.has_reading({name!r})={hx.has_reading(name)} but the field's latest value is {short(latest, 100)} (reading {short(direct[-1], 120)})")
                    hp = hx.prev_reading(name)
                    pv = want[-2] if L >= 2 else None
                    if not same(hp, pv):
                        V("prev_reading", f"C20|Hexital.prev_reading|{cls}", f"Hexital.prev_reading({name!r}) {short(hp, 100)} != reading(-2) {short(pv, 100)}")
                    rc = ind.reading_count(name) if f is not None else ind.reading_count()
                    if rc != trailing(want):
                        V("reading_count", f"C20|reading_count|{cls}", f"reading_count({name!r})={rc} but trailing run of readings is {trailing(want)} of {L}")
            # helper series (stored in sub_indicators) and price fields are readable by name through the same accessors
            for cfg, ind in built:
                cs = ind.candles
                L = len(cs)
                if L == 0:
                    continue
                helper_names = []
                for c in cs[-3:]:
                    for k in vars(c)["sub_indicators"]:
                        if k not in helper_names and "." not in k:
                            helper_names.append(k)
                for hname in helper_names[:3] + ["close", "volume"]:
                    if hname in ("close", "volume"):
                        want = [vars(c)[hname] for c in cs]
                    else:
                        want = [vars(c)["sub_indicators"].get(hname) for c in cs]
                    al = ind.as_list(hname)
                    stats["helper_name_columns"] = stats.get("helper_name_columns", 0) + 1
                    if not same(al, want):
                        V("agreement-sweep", f"C20|as_list-by-name|{'price-field' if hname in ('close', 'volume') else 'helper-series'}",
                          f"{ind.name}.as_list({hname!r}) {short(al[-3:], 120)} != what the candles hold {short(want[-3:], 120)}")
                    for i in (0, L // 2, L - 1):
                        g1, g2 = ind.reading(hname, i), ind.read_candle(cs[i], hname)
                        if not same(g1, want[i]) or not same(g2, want[i]):
                            V("agreement-sweep", f"C20|reading-by-name|{'price-field' if hname in ('close', 'volume') else 'helper-series'}",
                              f"{ind.name}.reading({hname!r}, {i})={short(g1, 80)} read_candle={short(g2, 80)} but the candle holds {short(want[i], 80)}")
            stats["points_compared"] = stats.get("points_compared", 0) + pts
            stats["falsy_present_points"] = stats.get("falsy_present_points", 0) + falsy
            stats["dotted_points"] = stats.get("dotted_points", 0) + dotted
            stats["sweeps"] = stats.get("sweeps", 0) + 1
            if pts >= 20 and (falsy or dotted):
                nontrivial = True

        for w in case["program"]:
            if viol:
                break
            if w["op"] == "append":
                hx.append(encode_chunk(rows, pos, w["n"], "candle"))
                pos += w["n"]
                cursor_ok = True
            elif w["op"] == "calculate":
                hx.calculate()
                cursor_ok = True
            elif w["op"] == "purge_calc":
                hx.purge()
                hx.calculate()
                cursor_ok = True
            elif w["op"] == "calc_index":
                cfg, ind = built[w["m"] % len(built)]
                L = len(ind.candles)
                i = w["i"] if w["i"] != "mid" else L // 2
                if L and -L <= i < L:
                    hx.calculate_index(ind.name, i)
                    cursor_ok = False
                    stats["calc_index_ops"] = stats.get("calc_index_ops", 0) + 1
            elif w["op"] == "sweep":
                sweep()
    except Exception as e:
        import traceback
        V("exception", f"C20|raises|{type(e).__name__}", (repr(e) + traceback.format_exc()[-500:])[:900])
        nontrivial = True
    return {"violations": viol, "nontrivial": nontrivial or bool(viol), "stats": stats,
            "sample": {"tf": case["tf"], "members": case["members"], "program": case["program"][:16], "n_rows": len(rows)}}
