"""C01 - incremental appends give exactly the batch result (schedule independence).

Monitor: state recorder (M1) on two twins of the real class - one fed the stream through an append
schedule, one built over the whole stream and calculated once. Oracle: exact equality of the candle
lists (timestamps, OHLCV) and of every top-level reading.
"""
from __future__ import annotations

from hxv.core import digest, first_diff, short, snapshot, top_of
from hxv.drive import batch, run_schedule
from hxv.gen import configs, schedules, streams
from hxv.gen.timeframes import pick_timeframe

ID = "C01"
LEVEL = "exploration"
CASE_TIMEOUT = 60
RULE = ("case = (indicator config, stream rows, timeframe/fill, append schedule) drawn from seeded generators "
        "(all 26 classes + Amorph over every pattern/movement, stream families, S/T/H/D timeframes, fill on/off, "
        "schedule families incl. pre-load and empty appends; thorough adds every composition of streams of length <= 10). "
        "non-trivial: >= 2 non-empty append calls, >= 1 non-None top-level reading in the batch twin and, on a collapsing "
        "timeframe, >= 1 merge into an open bucket (fewer collapsed candles than rows). distinct: digest of the whole case.")
ASSUMPTIONS = [
    "streams are well-formed (positive finite prices, low<=open,close<=high, volume>=0, non-decreasing naive timestamps)",
    "a case in which both twins raise the same exception type is left to C09 (counted as both_raise)",
    "helper series (sub_indicators) are compared and reported (helper_divergence) but never decide",
]


def plan(tier):
    if tier == "thorough":
        return {"shards": 16, "cases": 60000, "shard_timeout_s": 3000, "shard_budget_s": 1500}
    return {"shards": 16, "cases": 8000, "shard_timeout_s": 600, "shard_budget_s": 100}


def floors(tier):
    return {"distinct_nontrivial": 150, "classes_seen": 20, "collapsing_cases": 30, "fill_cases": 10}


def gen_case(rng, tier, idx):
    cfg = configs.rand_config(rng)
    big = tier == "thorough"
    tfkind = rng.choice(["none", "none", "collapse", "collapse", "collapse_fill"])
    if tfkind == "none":
        n = rng.randint(20, 400 if not big else 1200)
        if rng.random() < 0.1:
            n = rng.randint(1, 12)
        fam = rng.choice(streams.FAMILIES + ["frac_vol"])
        rows = streams.make_rows(rng, n, fam, rng.choice([1, 60, 300, 3600]), rng.choice(["regular", "regular", "dups", "jitter"]))
        bucket = None
    else:
        tf, tf_s, step = pick_timeframe(rng)
        n = rng.randint(20, 300 if not big else 800)
        fam = rng.choice(streams.FAMILIES + ["frac_vol"])
        mode = rng.choice(["regular", "jitter", "gaps", "gaps", "dups"])
        rows = streams.make_rows(rng, n, fam, step, mode, tf_s, max_gap_buckets=12 if tfkind == "collapse_fill" else 40)
        cfg["kw"]["timeframe"] = tf
        if tfkind == "collapse_fill":
            cfg["kw"]["timeframe_fill"] = True
        bucket = max(1, tf_s // step)
    micro = False
    if rng.random() < 0.12:
        # sub-second timestamps (still non-decreasing): which candles came through the constructor and which through append must not matter
        from datetime import datetime, timedelta
        micro = True
        prev = None
        for r in rows:
            t = datetime.fromisoformat(r[0]) + timedelta(microseconds=rng.choice([0, 1, 250000, 500000, 999999]))
            if prev is not None and t < prev:
                t = prev
            prev = t
            r[0] = t.isoformat()
    encs = ("candle", "candle", "dict", "list", "mixed")
    attached = False
    if rng.random() < 0.07:
        # candles that arrive with a reading the caller attached (Candle(indicators={...})), consumed as an input series: whether a candle
        # came through the constructor or through append must not matter; on a timeframe as fine as the feed no bucket is ever merged
        attached = True
        ccls = rng.choice(["SMA", "EMA", "WMA", "RSI", "StandardDeviation", "ROC", "Amorph", "Amorph"])
        if ccls == "Amorph":
            an = rng.choice(["rising", "above", "highest", "crossover", "mean_falling"])
            cfg = {"cls": "Amorph", "analysis": an, "kw": {"indicator": "ext", "length": rng.choice([2, 3, 5])}}
            if an == "crossover":
                cfg["kw"] = {"indicator_one": "ext", "indicator_two": "close"}
            elif an == "above":
                cfg["kw"] = {"indicator": "ext", "indicator_two": "close"}
        else:
            cfg = {"cls": ccls, "kw": {**configs.rand_kw(rng, ccls, allow_input=False, max_period=8), "input_value": "ext"}}
        if tfkind != "none":
            tf, tf_s, step = pick_timeframe(rng)
            step = tf_s  # one raw candle per bucket: nothing is merged, so attached readings stay (a merge or a fill candle would leave
            # a hole in the attached series, and holes inside an input series are outside every quantifier)
            rows = streams.make_rows(rng, n, fam, step, "regular" if tfkind == "collapse_fill" else rng.choice(["regular", "gaps"]), tf_s, max_gap_buckets=6)
            cfg["kw"]["timeframe"] = tf
            if tfkind == "collapse_fill":
                cfg["kw"]["timeframe_fill"] = True
            bucket = max(1, tf_s // step)
        for r in rows:
            r.append({"ext": round(0.5 * r[4] + 3 + (r[5] % 7), 2)})
        encs = ("candle",)
    sch = schedules.rand_schedule(rng, len(rows), bucket=bucket, encs=encs)
    return {"cfg": cfg, "rows": rows, "schedule": sch, "family": fam, "tfkind": tfkind, "micro": micro, "attached": attached}


def extra_cases(tier, seed, shard, nshards):
    """Small-scope exhaustion: every composition of short streams (thorough: n<=10; quick: n<=6)."""
    import random

    blocks = 24 if tier == "thorough" else 8
    nmax = 10 if tier == "thorough" else 6
    for b in range(shard, blocks, nshards):
        rng = random.Random(f"C01x:{seed}:{b}")
        cfg = configs.rand_config(rng, max_period=4)
        n = rng.randint(4, nmax)
        tfkind = rng.choice(["none", "collapse", "collapse_fill"])
        if tfkind == "none":
            rows = streams.make_rows(rng, n, rng.choice(streams.FAMILIES), 60)
        else:
            tf, tf_s, step = pick_timeframe(rng)
            rows = streams.make_rows(rng, n, rng.choice(streams.FAMILIES), step, rng.choice(["regular", "gaps", "jitter"]), tf_s, max_gap_buckets=4)
            cfg["kw"]["timeframe"] = tf
            cfg["kw"]["timeframe_fill"] = tfkind == "collapse_fill"
        for comp in schedules.compositions(n):
            yield {"cfg": cfg, "rows": rows, "schedule": {"preload": 0, "precalc": False, "chunks": comp, "enc": "candle"},
                   "family": "exhaustive", "tfkind": tfkind, "exhaustive_block": b}


def _try(f):
    try:
        return f(), None
    except Exception as e:  # an exception is an event for the monitor, not a harness failure
        return None, e


def run_case(case):
    cfg, rows, sch = case["cfg"], case["rows"], case["schedule"]
    cls = cfg["cls"] if cfg["cls"] != "Amorph" else f"Amorph:{cfg['analysis']}"
    stats = {"cases_by_tfkind": {case["tfkind"]: 1}, "classes_seen": [cls], "families_seen": [case.get("family")]}
    if case.get("micro"):
        stats["sub_second_timestamp_cases"] = 1
    if case["tfkind"] != "none":
        stats["collapsing_cases"] = 1
    if case["tfkind"] == "collapse_fill":
        stats["fill_cases"] = 1
    if "exhaustive_block" in case:
        stats["exhaustive_compositions"] = 1
    a, ea = _try(lambda: batch(cfg, rows))
    b, eb = _try(lambda: run_schedule(cfg, rows, sch))
    viol = []
    if ea is not None or eb is not None:
        if ea is not None and eb is not None and type(ea) is type(eb):
            stats["both_raise"] = 1
            return {"violations": [], "nontrivial": False, "stats": stats}
        which = "batch-only" if eb is None else ("incremental-only" if ea is None else "different-types")
        viol.append({"monitor": "twin-exception", "sig": f"C01|one-side-raises|{cls}|{which}",
                     "detail": f"batch: {ea!r}; incremental: {eb!r}; schedule={short(sch, 200)}"})
        return {"violations": viol, "nontrivial": True, "stats": stats}
    name = a.name
    sa, sb = snapshot(a.candles), snapshot(b.candles)
    ta, tb = top_of(sa, name), top_of(sb, name)
    stats["snapshots_compared"] = 2
    stats["candles_compared"] = len(ta)
    stats["readings_compared"] = sum(1 for t in ta if t[2] is not None)
    d = first_diff(ta, tb)
    if d is not None:
        i, x, y = d
        if len(ta) != len(tb):
            kind = "candle-count"
        elif x[0] != y[0]:
            kind = "timestamp"
        elif x[1] != y[1]:
            kind = "ohlcv"
        else:
            kind = "reading"
        viol.append({"monitor": "final-snapshot", "sig": f"C01|{kind}-diff|{cls}|{'base' if case['tfkind'] == 'none' else 'collapsing'}",
                     "detail": f"first difference at candle {i} of {len(ta)}/{len(tb)}: batch={x} incremental={y}; schedule={short(sch, 160)}"})
    else:
        ha = [s["sub"] for s in sa]
        hb = [s["sub"] for s in sb]
        if ha != hb:
            stats["helper_divergence"] = 1
    nontrivial = (schedules.n_appends(sch) >= 2 and any(t[2] is not None and t[2] != {} for t in ta)
                  and (case["tfkind"] == "none" or len(ta) < len(rows) or bool(case.get("attached"))))
    if case.get("attached"):
        stats["attached_reading_cases"] = 1
    if case["tfkind"] != "none" and len(ta) < len(rows):
        stats["merges_observed"] = len(rows) - len(ta)
    return {"violations": viol, "nontrivial": nontrivial, "stats": stats,
            "sample": {"cfg": cfg, "tfkind": case["tfkind"], "family": case.get("family"), "schedule": sch,
                       "n_rows": len(rows), "rows_head": rows[:3], "name": name, "batch_tail": ta[-2:]}}
