"""C15 - lifespan trimming keeps exactly the window and leaves its readings unchanged.

Monitors: state recorder after every append on two twins driven by the same schedule - one with
candles_lifespan, one without. Oracle 1 (every append): retained timestamps == those of the untrimmed
twin that are >= newest - lifespan, in order, with identical OHLCV. Oracle 2 (only under the property's
own precondition, made true by construction): readings on retained candles == the untrimmed twin's.
"""
from __future__ import annotations

from datetime import timedelta

from hxv.core import rows_to_candles, same, short, snapshot
from hxv.drive import encode_chunk
from hxv.gen import configs, schedules, streams
from hxv.gen.timeframes import pick_timeframe

ID = "C15"
LEVEL = "exploration"
CASE_TIMEOUT = 60
RULE = ("case = (indicator config, stream, timeframe none|collapsing|collapsing+fill, lifespan, schedule); the same schedule drives a "
        "trimmed and an untrimmed twin, compared after every append. 'generous' cases (regular timestamps, lifespan >= "
        "(2*lookback + largest chunk + 3) buckets) decide both oracles; 'tight' cases (lifespan of 2..15 steps, jittered/gapped "
        "timestamps) decide Oracle 1 only. non-trivial: >= 2 appends and >= 1 candle actually trimmed; for Oracle 2 additionally "
        ">= 1 non-None reading compared after the first trim. distinct: case digest.")
ASSUMPTIONS = ["Oracle 2 precondition (look-back still retained when a reading is computed) is guaranteed by the generator's lifespan formula and the per-class look-back table",
               "standalone indicators only; Hexital-level lifespan is exercised by C08",
               "tight windows (shorter than an indicator period) are driven with look-back-free indicators: what an indicator does when its look-back has been trimmed away is outside the property"]


def plan(tier):
    if tier == "thorough":
        return {"shards": 16, "cases": 80000, "shard_timeout_s": 3000, "shard_budget_s": 1500}
    return {"shards": 16, "cases": 2400, "shard_timeout_s": 600, "shard_budget_s": 100}


def floors(tier):
    return {"distinct_nontrivial": 300, "window_checks": 5000, "reading_checks_after_trim": 5000, "classes_seen": 20, "trimmed_candles": 2000}


def gen_case(rng, tier, idx):
    if rng.random() < 0.08:
        # the window clause holds for EVERY list a Hexital keeps: the base list and each member-timeframe list, also when the lifespan is
        # shorter than a member's timeframe. Candles arrive through append only (members seeded at construction: recorded C08 finding).
        n = rng.randint(60, 160)
        a_ = rng.choice([2, 5, 10])
        tfs = [f"T{a_}", f"T{a_ * rng.choice([2, 3, 6])}"]
        life = rng.choice([60 * a_ // 2, 60 * a_, 60 * a_ * 2, 60 * a_ * 4, 60 * a_ * 12]) + rng.choice([0, 1, 30])
        rows = streams.make_rows(rng, n, "walk", 60, rng.choice(["regular", "regular", "gaps"]), 60 * a_, max_gap_buckets=6)
        chunks, left = [], n
        while left > 0:
            c = min(left, rng.choice([1, 1, 1, 2, 3, 7]))
            chunks.append(c)
            left -= c
        return {"mode": "hexital_window", "cfg": {"cls": "EMA", "kw": {"period": 2}}, "member_tfs": tfs, "rows": rows, "lifespan_s": life, "generous": False,
                "tfkind": "hexital", "schedule": {"preload": 0, "precalc": False, "chunks": chunks, "enc": "candle"}}
    cfg = configs.rand_config(rng, max_period=12)
    generous = rng.random() < 0.6
    tfkind = rng.choice(["none", "collapse", "collapse_fill"])
    lb = configs.lookback(cfg)
    if tfkind == "none":
        tf, step = None, rng.choice([1, 60, 300])
        unit, per_bucket = step, 1
    else:
        tf, tf_s, step = pick_timeframe(rng)
        if generous:
            step = max(1, tf_s // rng.choice([1, 2, 3, 5]))
        unit, per_bucket = tf_s, max(1, tf_s // step)
        cfg["kw"]["timeframe"] = tf
        cfg["kw"]["timeframe_fill"] = tfkind == "collapse_fill"
    if generous:
        maxchunk = rng.choice([1, 1, 3, 8])
        chunk_buckets = (maxchunk * step) // unit + 2
        life_units = 2 * lb + chunk_buckets + 3 + rng.randint(0, 5)
        n = min(900, (life_units * 3 + 20) * per_bucket)
        rows = streams.make_rows(rng, n, rng.choice(["walk", "walk", "flat_runs", "spiky"]), step, "regular", unit)
        chunks = []
        left = n - 0
        pre = rng.choice([0, 1, 5])
        left -= pre
        while left > 0:
            c = min(left, rng.randint(1, maxchunk))
            chunks.append(c)
            left -= c
        sch = {"preload": pre, "precalc": rng.random() < 0.5, "chunks": chunks, "enc": "candle"}
    else:
        # Oracle 1 only: an indicator without look-back, so that a window shorter than a period cannot matter
        cfg = {"cls": rng.choice(["HighLowAverage", "OBV", "TR"]), "kw": {k: v for k, v in cfg["kw"].items() if k in ("timeframe", "timeframe_fill")}}
        life_units = rng.randint(2, 15)
        n = rng.randint(20, 200)
        rows = streams.make_rows(rng, n, "walk", step, rng.choice(["regular", "jitter", "gaps", "dups"]), unit, max_gap_buckets=8)
        sch = schedules.rand_schedule(rng, n, bucket=per_bucket)
    if not generous and rng.random() < 0.12:
        life_units = 0  # the smallest legal lifespan: only candles carrying the newest timestamp survive
    if generous and rng.random() < 0.25:
        # "recursive_narrow": purely recursive indicators need ONE predecessor once warmed up. Dense warm-up (the window holds far more
        # than a period), then a sparse feed (the window holds 2-4 candles), single-candle appends: readings must equal the untrimmed run.
        cls_r = rng.choice(["EMA", "RMA", "ATR", "RSI", "MACD", "KC", "TSI", "Supertrend", "ADX", "OBV", "VWAP", "TR", "Counter"])
        cfg = {"cls": cls_r, "kw": {k: v for k, v in configs.rand_kw(rng, cls_r, allow_input=False, max_period=8).items() if k != "round_value"}}
        tfkind, tf = "none", None
        lb2 = configs.lookback(cfg)
        dense, sparse = 3 * lb2 + 10, rng.randint(15, 40)
        s1 = rng.choice([1, 5, 60])
        s2 = s1 * rng.choice([20, 50])
        mult = rng.randint(1, 4)  # 1: the window is exactly [predecessor, newest] - all a purely recursive indicator needs
        life = s2 * mult + rng.choice([0, 1])
        if life // s1 < 2 * lb2 + 4:
            s2 = s1 * (2 * lb2 + 6)
            life = s2 * mult + 1
        from datetime import datetime, timedelta
        pr = streams.prices(rng, dense + sparse, rng.choice(["walk", "spiky", "flat_runs"]))
        t, ts = datetime(2023, 6, 1, 9, 0, 0), []
        for i in range(dense + sparse):
            ts.append(t)
            t = t + timedelta(seconds=s1 if i < dense else s2)
        rows = streams.rows_from(pr, ts)
        return {"cfg": cfg, "rows": rows, "schedule": {"preload": 1, "precalc": False, "chunks": [1] * (dense + sparse - 1), "enc": "candle"},
                "lifespan_s": life, "generous": True, "tfkind": "none", "mode": "recursive_narrow"}
    ha_ok = generous
    if not generous and rng.random() < 0.4:
        # "preload_long": a history longer than the lifespan is handed over at construction, then small appends. The window keeps
        # >= 5 buckets, so the still-forming bucket always has its predecessor (all a Heikin-Ashi conversion needs). Oracle 1 only.
        life_units = rng.randint(5, 15)
        n = (life_units * 3 + 10) * per_bucket
        rows = streams.make_rows(rng, n, "walk", step, "regular", unit)
        pre = rng.randint(life_units * per_bucket + 5, n - 10)
        chunks, left = [], n - pre
        while left > 0:
            c = min(left, rng.randint(1, 3))
            chunks.append(c)
            left -= c
        sch = {"preload": pre, "precalc": rng.random() < 0.5, "chunks": chunks, "enc": "candle"}
        ha_ok = True
    if ha_ok and tfkind != "collapse_fill" and rng.random() < 0.3:
        cfg["kw"]["candlestick_type"] = "HA"  # converted values of retained candles must not depend on trimming either
    lifespan = life_units * unit + rng.choice([0, 0, 1, unit // 2])
    return {"cfg": cfg, "rows": rows, "schedule": sch, "lifespan_s": lifespan, "generous": generous, "tfkind": tfkind}


def run_hexital_window(case):
    from hexital import EMA, Hexital
    rows, sch = case["rows"], case["schedule"]
    life = timedelta(seconds=case["lifespan_s"])
    stats = {"classes_seen": ["Hexital"], "modes": {"hexital_window": 1}, "tfkinds": {"hexital": 1}, "candlestick": {"none": 1}}
    viol, trimmed_total = [], 0

    def members():
        return [EMA(period=2)] + [EMA(period=2, timeframe=t) for t in case["member_tfs"]]

    try:
        a = Hexital("a", [], members(), candles_lifespan=life)
        b = Hexital("b", [], members())
        pos = 0
        for size in sch["chunks"]:
            a.append(encode_chunk(rows, pos, size, "candle"))
            b.append(encode_chunk(rows, pos, size, "candle"))
            pos += size
            la, lb = dict(a.get_candles()), dict(b.get_candles())
            for ln, full_ in lb.items():
                if not full_:
                    continue
                newest = full_[-1].timestamp
                want = [c.timestamp for c in full_ if not c.timestamp < newest - life]
                got = [c.timestamp for c in la.get(ln, [])]
                stats["window_checks"] = stats.get("window_checks", 0) + 1
                stats["hexital_list_window_checks"] = stats.get("hexital_list_window_checks", 0) + 1
                trimmed_total = max(trimmed_total, len(full_) - len(want))
                if got != want:
                    viol.append({"monitor": "window-oracle", "sig": f"C15|window|hexital|{'member-tf' if ln != 'default' else 'base'}",
                                 "detail": f"after {pos} rows, Hexital lifespan {life}, list {ln!r}: retained {len(got)} [{got[0] if got else None}..] expected {len(want)} [{want[0]}..], newest {newest}"})
                    break
            if viol:
                break
    except Exception as e:
        viol.append({"monitor": "exception", "sig": f"C15|raises|Hexital|{type(e).__name__}", "detail": repr(e)[:400]})
    stats["trimmed_candles"] = trimmed_total
    return {"violations": viol, "nontrivial": trimmed_total >= 1 and schedules.n_appends(sch) >= 2, "stats": stats,
            "sample": {"mode": "hexital_window", "member_tfs": case["member_tfs"], "lifespan_s": case["lifespan_s"], "n_rows": len(rows)}}


def run_case(case):
    if case.get("mode") == "hexital_window":
        return run_hexital_window(case)
    cfg, rows, sch = case["cfg"], case["rows"], case["schedule"]
    cls = cfg["cls"] if cfg["cls"] != "Amorph" else f"Amorph:{cfg['analysis']}"
    stats = {"classes_seen": [cls], "modes": {case.get("mode") or ("generous" if case["generous"] else "tight"): 1}, "tfkinds": {case["tfkind"]: 1},
             "candlestick": {"HA" if cfg["kw"].get("candlestick_type") else "none": 1}}
    viol = []
    life = timedelta(seconds=case["lifespan_s"])
    pre = sch["preload"]
    trimmed_total = 0
    readings_after_trim = 0
    try:
        a = configs.build(cfg, candles=rows_to_candles(rows[:pre]), candles_lifespan=case["lifespan_s"])
        b = configs.build(cfg, candles=rows_to_candles(rows[:pre]))
        if sch.get("precalc"):
            a.calculate()
            b.calculate()
        pos = pre
        for size in sch["chunks"]:
            a.append(encode_chunk(rows, pos, size, sch.get("enc", "candle")))
            b.append(encode_chunk(rows, pos, size, sch.get("enc", "candle")))
            pos += size
            if not b.candles:
                continue
            sa = snapshot(a.candles, helpers=False)
            sb = snapshot(b.candles, helpers=False)
            newest = sb[-1]["ts"]
            want = [s for s in sb if not s["ts"] < newest - life]
            stats["window_checks"] = stats.get("window_checks", 0) + 1
            trimmed_now = len(sb) - len(want)
            trimmed_total = max(trimmed_total, trimmed_now)
            if [s["ts"] for s in sa] != [s["ts"] for s in want]:
                viol.append({"monitor": "window-oracle", "sig": f"C15|window|{case['tfkind']}",
                             "detail": f"after {pos} rows, lifespan {life}: retained {len(sa)} [{sa[0]['ts'] if sa else None}..] expected {len(want)} [{want[0]['ts']}..], newest {newest}"})
                break
            if [s["ohlcv"] for s in sa] != [s["ohlcv"] for s in want]:
                i = next(i for i in range(len(sa)) if sa[i]["ohlcv"] != want[i]["ohlcv"])
                viol.append({"monitor": "window-oracle", "sig": f"C15|ohlcv|{case['tfkind']}",
                             "detail": f"after {pos} rows retained candle {i}: {sa[i]} vs untrimmed {want[i]}"})
                break
            if case["generous"]:
                name = a.name
                for i, (x, y) in enumerate(zip(sa, want)):
                    rx, ry = x["ind"].get(name), y["ind"].get(name)
                    if trimmed_now and ry is not None:
                        readings_after_trim += 1
                    if not same(rx, ry):
                        viol.append({"monitor": "readings-oracle", "sig": f"C15|readings|{cls}|{case['tfkind']}",
                                     "detail": f"after {pos} rows (trimmed {trimmed_now}), retained candle {i}/{len(sa)} ts {x['ts']}: trimmed twin {short(rx, 200)} untrimmed {short(ry, 200)}; lifespan {life}, look-back table {configs.lookback(cfg)}"})
                        break
                if viol:
                    break
    except Exception as e:
        viol.append({"monitor": "exception", "sig": f"C15|raises|{cls}|{type(e).__name__}", "detail": repr(e)[:400]})
    stats["trimmed_candles"] = trimmed_total
    stats["reading_checks_after_trim"] = readings_after_trim
    nontrivial = schedules.n_appends(sch) >= 2 and trimmed_total >= 1 and (not case["generous"] or readings_after_trim >= 1)
    return {"violations": viol, "nontrivial": nontrivial, "stats": stats,
            "sample": {"cfg": cfg, "tfkind": case["tfkind"], "lifespan_s": case["lifespan_s"], "generous": case["generous"],
                       "schedule": {**sch, "chunks": sch["chunks"][:12]}, "n_rows": len(rows), "rows_head": rows[:3]}}
