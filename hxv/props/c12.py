"""C12 - gap filling yields a contiguous series of flat, zero-volume candles.

Same monitors as C03 with timeframe_fill on: after every operation the manager's candles are compared
with the reference resampler with filling; contiguity (exactly one timeframe apart), fill-candle shape
(flat at the previous close, volume 0), 'real buckets identical to the unfilled resampling' (implied by
equality with the filled reference, whose real buckets are the unfilled ones) and schedule independence
(the same reference at every step of every schedule) are evaluated on the same snapshots.
"""
from __future__ import annotations

from hxv.props import c03

ID = "C12"
LEVEL = "exploration"
CASE_TIMEOUT = 60
RULE = ("as C03 with timeframe_fill=True and gap-heavy streams (several gaps per stream, gaps of 1..12 buckets, gaps opening at "
        "append boundaries; dead-market stretches = REAL flat zero-volume candles shaped like fills, up to two buckets long, in 30% of the cases); additionally consecutive labels exactly one timeframe apart and every inserted candle flat at the "
        "previous close with volume 0. non-trivial: >= 2 real buckets, >= 1 merge and >= 1 inserted fill candle. distinct: case digest.")
ASSUMPTIONS = c03.ASSUMPTIONS + ["gap / timeframe capped at 12 buckets per gap (filling is quadratic in the gap; a performance trait, not a property)",
                                 "Heikin-Ashi x gap filling is not combined (no property quantifier names it)"]


def plan(tier):
    if tier == "thorough":
        return {"shards": 16, "cases": 80000, "shard_timeout_s": 3000, "shard_budget_s": 1500}
    return {"shards": 16, "cases": 6000, "shard_timeout_s": 600, "shard_budget_s": 100}


def floors(tier):
    return {"distinct_nontrivial": 300, "snapshots_compared": 5000, "fill_candles_checked": 2000, "entries_seen": 5}


def gen_case(rng, tier, idx):
    case = c03.gen_case(rng, tier, idx, fill=True)
    return case


run_case = c03.run_case
shard_finish = c03.shard_finish
