"""C09 - calculation is total: no exception, only finite numbers, no gaps after warm-up.

Monitors: try/except around every build/append/calculate (an exception is an event); write contract
on Indicator._set_reading (every stored reading of every indicator, helper or top-level, must be
None, bool or a finite number, also inside dicts); offline contiguity checker over the final column
of every output field.
"""
from __future__ import annotations

from hxv.core import is_finite_reading, short
from hxv.drive import batch, run_schedule
from hxv.gen import configs, schedules, streams
from hxv.gen.timeframes import pick_timeframe
from hxv.instr.contracts import BINDER, SetReadingMonitor

ID = "C09"
LEVEL = "exploration"
CASE_TIMEOUT = 60
RULE = ("case = (indicator config, degenerate-biased stream, timeframe none|collapsing+fill, append schedule); both a "
        "batch calculate() and the append schedule are executed under the monitors. non-trivial: the stream is a pure "
        "degenerate family (flat, flat_runs, plateau, trend_up/down, zero_vol, flat_start, mono_start, equal_vol) or a "
        "walk with a spliced degenerate window at least look-back long, and >= 1 reading was written. distinct: case digest.")
ASSUMPTIONS = [
    "well-formed streams only: finite positive prices, low<=open,close<=high, volume>=0, non-decreasing timestamps",
    "input_value is a price field (or volume where a zero input is meaningful; ROC/STOCH/KC/Supertrend are not fed volume), or - in 'chained' cases - the late-starting output of another shipped indicator registered before it",
    "Supertrend long/short are checked as the union 'exactly one present' (alternation is their meaning)",
]
DEGENERATE = ["flat", "flat_runs", "plateau", "trend_up", "trend_down", "zero_vol", "zero_vol_start", "flat_start", "mono_start", "equal_vol"]


def plan(tier):
    if tier == "thorough":
        return {"shards": 16, "cases": 200000, "shard_timeout_s": 3000, "shard_budget_s": 1500}
    return {"shards": 16, "cases": 10000, "shard_timeout_s": 600, "shard_budget_s": 100}


def floors(tier):
    return {"distinct_nontrivial": 300, "classes_seen": 20, "contract_evaluations": 10000, "columns_checked": 300}


CHAIN_SOURCES = [({"cls": "RSI", "kw": {"period": 5}}, "RSI_5"), ({"cls": "ATR", "kw": {"period": 4}}, "ATR_4"), ({"cls": "EMA", "kw": {"period": 6}}, "EMA_6"),
                 ({"cls": "SMA", "kw": {"period": 10}}, "SMA_10"), ({"cls": "TR", "kw": {}}, "TR"), ({"cls": "ROC", "kw": {"period": 7}}, "ROC"),
                 ({"cls": "MACD", "kw": {"fast_period": 3, "slow_period": 7, "signal_period": 4}}, "MACD_3_7_4.signal"),
                 ({"cls": "STOCH", "kw": {"period": 5}}, "STOCH_5.d"), ({"cls": "BBANDS", "kw": {"period": 6}}, "BBANDS_6.BBL"),
                 ({"cls": "OBV", "kw": {}}, "OBV"), ({"cls": "StandardDeviation", "kw": {"period": 5}}, "STDEV_5")]
CHAIN_CONSUMERS = ["SMA", "EMA", "RMA", "WMA", "HMA", "StandardDeviation", "BBANDS", "KC", "MACD", "ROC", "RSI", "STOCH", "StandardDeviationThreshold", "TSI"]


def gen_case(rng, tier, idx):
    if rng.random() < 0.1:
        # a shipped indicator fed by another shipped indicator's (late-starting, possibly zero or negative) output
        src, sname = rng.choice(CHAIN_SOURCES)
        ccls = rng.choice(CHAIN_CONSUMERS)
        if ccls == "ROC":
            # a rate of change over a zero input is undefined (same exclusion as ROC over volume): strictly positive sources only
            src, sname = rng.choice(CHAIN_SOURCES[2:4])
        kw = configs.rand_kw(rng, ccls, allow_input=False, max_period=10)
        kw["input_value"] = sname
        if ccls == src["cls"] and "period" in kw and kw["period"] == src["kw"].get("period"):
            kw["period"] = kw["period"] + 1
        if ccls == "MACD":
            kw["signal_period"] = max(5, kw["signal_period"])  # never the source's own name
        n = rng.randint(80, 200)
        fam = rng.choice(DEGENERATE + ["walk", "walk"])
        rows = streams.make_rows(rng, n, fam, 60)
        return {"cfg": {"cls": ccls, "kw": kw}, "source": src, "rows": rows, "schedule": schedules.rand_schedule(rng, n), "family": fam, "tfkind": "chained", "window": None}
    cfg = configs.rand_config(rng, max_period=20, amorph_share=0.08)
    lb = configs.lookback(cfg)
    n = rng.randint(max(30, 2 * lb + 10), max(60, 2 * lb + 10, 260))
    fam = rng.choice(DEGENERATE + ["walk", "walk", "walk", "scale"])
    tfkind = rng.choice(["none", "none", "none", "collapse_fill", "collapse"])
    if tfkind == "none":
        step, tf_s, mode = 60, None, "regular"
    else:
        tf, tf_s, step = pick_timeframe(rng)
        mode = rng.choice(["gaps", "regular", "jitter"])
        cfg["kw"]["timeframe"] = tf
        cfg["kw"]["timeframe_fill"] = tfkind == "collapse_fill"
    pr = streams.prices(rng, n, fam)
    info = None
    if fam in ("walk", "scale"):
        pr, info = streams.inject_degenerate(rng, pr, lb + 1)
    ts = streams.timestamps(rng, n, step, mode, tf_s, max_gap_buckets=15)
    rows = streams.rows_from(pr, ts)
    if tfkind != "none" and rng.random() < 0.1:
        streams.add_subsecond(rng, rows)
    sch = schedules.rand_schedule(rng, n, bucket=(tf_s // step if tf_s else None))
    return {"cfg": cfg, "rows": rows, "schedule": sch, "family": fam, "tfkind": tfkind, "window": info}


def columns(ind):
    """field -> list of values, for the indicator's own (top-level) output."""
    col = ind.as_list()
    fields = {}
    keys = []
    for v in col:
        if isinstance(v, dict):
            for k in v:
                if k not in keys:
                    keys.append(k)
    if not keys:
        return {"": col}
    for k in keys:
        fields[k] = [v.get(k) if isinstance(v, dict) else None for v in col]
    return fields


def gaps_in(col):
    started = False
    for i, v in enumerate(col):
        if v is not None:
            started = True
        elif started:
            return i
    return None


def run_case(case):
    cfg, rows, sch = case["cfg"], case["rows"], case["schedule"]
    cls = cfg["cls"] if cfg["cls"] != "Amorph" else f"Amorph:{cfg['analysis']}"
    stats = {"classes_seen": [cls], "families_seen": [case["family"]], "cases_by_tfkind": {case["tfkind"]: 1}, "binder": [BINDER]}
    viol = []
    bad_writes = []

    def on_write(ind, reading, index):
        if not is_finite_reading(reading):
            bad_writes.append((type(ind).__name__, ind.name, index if index else ind._active_index, reading))

    written = 0
    def run_chained(mode):
        from hexital import Hexital
        from hxv.core import rows_to_candles
        from hxv.drive import encode_chunk
        members = [configs.build(case["source"]), configs.build(cfg)]
        if mode == "batch":
            hx = Hexital("h", rows_to_candles(rows), members)
            hx.calculate()
        else:
            hx = Hexital("h", rows_to_candles(rows[:sch["preload"]]), members)
            pos = sch["preload"]
            for size in sch["chunks"]:
                hx.append(encode_chunk(rows, pos, size, "candle"))
                pos += size
        return members[1]

    for mode in ("batch", "incremental"):
        with SetReadingMonitor(on_write) as mon:
            try:
                if case["tfkind"] == "chained":
                    ind = run_chained(mode)
                else:
                    ind = batch(cfg, rows) if mode == "batch" else run_schedule(cfg, rows, sch)
                exc = None
            except Exception as e:
                exc, ind = e, None
        stats["contract_evaluations"] = stats.get("contract_evaluations", 0) + mon.evaluations
        written += mon.evaluations
        if exc is not None:
            viol.append({"monitor": "exception", "sig": f"C09|raises|{cls}|{type(exc).__name__}",
                         "detail": f"{mode}: {exc!r} family={case['family']} window={case['window']} tfkind={case['tfkind']}"})
            continue
        if bad_writes:
            w = bad_writes[0]
            viol.append({"monitor": "finite-write-contract", "sig": f"C09|non-finite|{cls}|{w[0]}",
                         "detail": f"{mode}: {len(bad_writes)} non-finite write(s); first: {short(w, 300)} family={case['family']}"})
            bad_writes.clear()
            continue
        cols = columns(ind)
        if cfg["cls"] == "Supertrend" and "long" in cols:
            lo, sh = cols.pop("long"), cols.pop("short")
            cols["long|short"] = [a if a is not None else b for a, b in zip(lo, sh)]
        for f, col in cols.items():
            stats["columns_checked"] = stats.get("columns_checked", 0) + 1
            stats["readings_checked"] = stats.get("readings_checked", 0) + sum(1 for v in col if v is not None)
            g = gaps_in(col)
            if g is not None:
                start = next(i for i, v in enumerate(col) if v is not None)
                viol.append({"monitor": "contiguity", "sig": f"C09|gap|{cls}|{f or 'scalar'}",
                             "detail": f"{mode}: field {f!r} first value at {start}, None again at {g} of {len(col)}; family={case['family']} window={case['window']}; around: {short(col[max(0, g - 3):g + 3], 200)}"})
                break
    nontrivial = written > 0 and (case["family"] in DEGENERATE or case["window"] is not None)
    return {"violations": viol, "nontrivial": nontrivial, "stats": stats,
            "sample": {"cfg": cfg, "family": case["family"], "window": case["window"], "tfkind": case["tfkind"],
                       "n_rows": len(rows), "schedule": sch, "rows_head": rows[:3]}}
