"""C10 - outputs satisfy their structural invariants on every input.

Monitors: write contract on Indicator._set_reading (M5): a named predicate per indicator class is
evaluated at write time with the reading and the candle it is written on - so intermediate values of a
still-forming bucket are seen too, not only the final column; plus an offline pass over the final
column for relations that need the input series (averages inside their input range, OBV / Counter
steps).
"""
from __future__ import annotations

import math

from hxv.core import encode_row, short, ts_of
from hxv.drive import batch, run_schedule
from hxv.gen import configs, schedules, streams
from hxv.gen.timeframes import pick_timeframe
from hxv.instr.contracts import BINDER, SetReadingMonitor
from hxv.ref.resample import resample

ID = "C10"
LEVEL = "exploration"
CASE_TIMEOUT = 60
RULE = ("case = (indicator config incl. round_value, stream from all families incl. degenerate ones, timeframe none|collapsing(+fill), append "
        "schedule); the schedule and a batch run are executed with the write contract attached. non-trivial: >= 10 contract evaluations of the "
        "class-specific predicate with a non-None reading. distinct: case digest.")
ASSUMPTIONS = ["STOCH bound checked when its input is a price field (an input outside [low, high] is not a stochastic)",
               "EMA range check only for smoothing <= period+1 (otherwise it is not a convex average)",
               "rounding slack: identities 3*rho(round_value); recursive averages rho/alpha; window averages rho (one rounding, no drift with history)"]


def plan(tier):
    if tier == "thorough":
        return {"shards": 16, "cases": 200000, "shard_timeout_s": 3000, "shard_budget_s": 1500}
    return {"shards": 16, "cases": 10000, "shard_timeout_s": 600, "shard_budget_s": 100}


def floors(tier):
    return {"distinct_nontrivial": 500, "predicate_evaluations": 100000, "predicates_seen": 14, "rounding_checks": 100000, "offline_relations_checked": 2000}


def gen_case(rng, tier, idx):
    cfg = configs.rand_config(rng, classes=configs.CLASSES, max_period=20)
    if "round_value" not in cfg["kw"] and rng.random() < 0.3:
        cfg["kw"]["round_value"] = rng.choice([0, 1, 2, 3, 6, 8])
    if cfg["cls"] == "STOCH" and cfg["kw"].get("input_value") == "volume":
        cfg["kw"].pop("input_value")
    lb = configs.lookback(cfg)
    n = rng.randint(max(30, lb + 15), max(60, lb + 15, 220))
    fam = rng.choice(streams.FAMILIES + ["scale", "walk", "spiky"])
    tfkind = rng.choice(["none", "none", "collapse", "collapse_fill"])
    if tfkind == "none":
        rows = streams.make_rows(rng, n, fam, 60, rng.choice(["regular", "dups"]))
        bucket = None
    else:
        tf, tf_s, step = pick_timeframe(rng)
        rows = streams.make_rows(rng, n, fam, step, rng.choice(["regular", "gaps", "jitter"]), tf_s, max_gap_buckets=10)
        cfg["kw"]["timeframe"] = tf
        cfg["kw"]["timeframe_fill"] = tfkind == "collapse_fill"
        bucket = max(1, tf_s // step)
    case = {"cfg": cfg, "rows": rows, "schedule": schedules.rand_schedule(rng, n, bucket=bucket), "family": fam, "tfkind": tfkind}
    if rng.random() < 0.08:
        # the precision is a public, settable field: after it is changed, recalculate() and later appends must write at the NEW round_value
        case["round_switch"] = rng.choice([x for x in (0, 1, 2, 3, 6) if x != cfg["kw"].get("round_value", 4)])
    return case


def num(x):
    return isinstance(x, (int, float)) and not isinstance(x, bool)


def rho(r):
    return 0.5 * 10 ** (-r)


PRICE = ("open", "high", "low", "close")


class Checker:
    """Named predicates; each returns None (fine) or a short description of what is broken."""

    def __init__(self):
        self.evals = {}
        self.broken = []
        self.rounding_checks = 0

    def count(self, name):
        self.evals[name] = self.evals.get(name, 0) + 1

    def fail(self, pred, ind, index, msg):
        if len(self.broken) < 5:
            self.broken.append((pred, type(ind).__name__, ind.name, index, msg))

    # -- write-time hook
    def on_write(self, ind, reading, index):
        if reading is None:
            return
        idx = index if index else vars(ind)["_active_index"]
        cls = type(ind).__name__
        try:
            candle = ind.candles[idx]
        except Exception:
            return
        cv = vars(candle)
        top = not vars(ind).get("_sub_indicator")
        r = ind.round_value
        if top:
            vals = reading.values() if isinstance(reading, dict) else [reading]
            for v in vals:
                if isinstance(v, float):
                    self.rounding_checks += 1
                    if v != round(v, r):
                        self.fail("rounded-to-round_value", ind, idx, f"{v!r} is not rounded to {r} decimals")
        f = getattr(self, "p_" + cls, None)
        if f is not None:
            self.count(cls)
            # every invariant below relates real numbers: a reading that is neither None, a flag nor a real number (a complex root of a
            # negative variance residue, a string) cannot satisfy it and would otherwise slip past the num() guards (round 9, S19-A)
            for v in (reading.values() if isinstance(reading, dict) else [reading]):
                if v is not None and not isinstance(v, (bool, int, float)):
                    self.fail("not-a-real-number", ind, idx, f"{v!r} ({type(v).__name__}) where the invariants of {cls} need a real number")
                    return
            msg = f(ind, reading, cv, idx, 3 * rho(r) + 1e-9)
            if msg:
                self.fail(msg[0], ind, idx, msg[1])

    @staticmethod
    def _in(x, lo, hi, what, eps=1e-9):
        if num(x) and not (lo - eps <= x <= hi + eps):
            return ("bounds", f"{what}={x!r} outside [{lo},{hi}]")

    def p_RSI(self, ind, x, c, i, s):
        return self._in(x, 0, 100, "RSI")

    def p_TSI(self, ind, x, c, i, s):
        return self._in(x, -100, 100, "TSI", 1e-6)

    def p_STOCH(self, ind, x, c, i, s):
        if ind.input_value in PRICE and isinstance(x, dict):
            for k in ("stoch", "k", "d"):
                # k and d are SMAs of a series inside [0,100] (helpers kept at 4 decimals): a few roundings, never a drift
                m = self._in(x.get(k), 0, 100, k, 1e-6 + (0 if k == "stoch" else 3 * rho(4) + s))
                if m:
                    return m

    def p_AROON(self, ind, x, c, i, s):
        if isinstance(x, dict) and num(x.get("AROONU")):
            for k in ("AROONU", "AROOND"):
                m = self._in(x[k], 0, 100, k)
                if m:
                    return m
            if abs(x["AROONOSC"] - (x["AROONU"] - x["AROOND"])) > s:
                return ("identity", f"AROONOSC {x['AROONOSC']} != up-down {x['AROONU'] - x['AROOND']}")

    def p_ADX(self, ind, x, c, i, s):
        if isinstance(x, dict):
            return self._in(x.get("ADX"), 0, 100, "ADX", 1e-6)

    def p_TR(self, ind, x, c, i, s):
        if num(x):
            hl = c["high"] - c["low"]
            if hl < 0 or x < hl - s or x < 0:
                return ("tr>=high-low>=0", f"TR={x} high-low={hl}")

    def p_ATR(self, ind, x, c, i, s):
        if num(x) and x < 0:
            return ("atr>=0", f"ATR={x}")

    def p_StandardDeviation(self, ind, x, c, i, s):
        if num(x) and x < 0:
            return ("stdev>=0", f"STDEV={x}")

    @staticmethod
    def _ordered(x, lo, mid, hi):
        a, b, d = x.get(lo), x.get(mid), x.get(hi)
        if num(a) and num(b) and num(d) and not (a <= b <= d):
            return ("lower<=middle<=upper", f"{lo}={a} {mid}={b} {hi}={d}")

    def p_BBANDS(self, ind, x, c, i, s):
        if isinstance(x, dict):
            return self._ordered(x, "BBL", "BBM", "BBU")

    def p_KC(self, ind, x, c, i, s):
        if isinstance(x, dict):
            return self._ordered(x, "lower", "band", "upper")

    def p_Donchian(self, ind, x, c, i, s):
        if isinstance(x, dict) and num(x.get("DCU")):
            m = self._ordered(x, "DCL", "DCM", "DCU")
            if m:
                return m
            if x["DCU"] < c["high"] - s or x["DCL"] > c["low"] + s:
                return ("donchian-encloses-candle", f"DCL={x['DCL']} DCU={x['DCU']} candle low={c['low']} high={c['high']}")
            if abs(x["DCM"] - (x["DCU"] + x["DCL"]) / 2) > s:
                return ("identity", f"DCM {x['DCM']} != (DCU+DCL)/2 {(x['DCU'] + x['DCL']) / 2}")

    def p_MACD(self, ind, x, c, i, s):
        if isinstance(x, dict) and num(x.get("histogram")):
            if not (num(x.get("MACD")) and num(x.get("signal"))):
                return ("identity", f"histogram present without MACD/signal: {x}")
            if abs(x["histogram"] - (x["MACD"] - x["signal"])) > s:
                return ("identity", f"histogram {x['histogram']} != MACD-signal {x['MACD'] - x['signal']}")

    def p_Supertrend(self, ind, x, c, i, s):
        if isinstance(x, dict):
            if x.get("direction") not in (1, -1):
                return ("supertrend-structure", f"direction={x.get('direction')!r}")
            t, lo, sh = x.get("trend"), x.get("long"), x.get("short")
            if t is None:
                if lo is not None or sh is not None:
                    return ("supertrend-structure", f"trend None but long/short set: {x}")
            else:
                if (lo is None) == (sh is None):
                    return ("supertrend-structure", f"exactly one of long/short must be set: {x}")
                side = lo if lo is not None else sh
                if side != t:
                    return ("supertrend-structure", f"long/short {side} != trend {t}")
                if (x["direction"] == 1) != (lo is not None):
                    return ("supertrend-structure", f"direction {x['direction']} but {'long' if lo is not None else 'short'} set")

    def p_Counter(self, ind, x, c, i, s):
        if x is not None and (isinstance(x, bool) or not isinstance(x, int) or x < 0):
            return ("counter-nonneg-int", f"Counter={x!r}")


def offline(cfg, ind, base_rows, chk, stats):
    """relations that need the input series: averages within input range, OBV/Counter steps. base_rows = candles the indicator saw."""
    cls, kw = cfg["cls"], cfg["kw"]
    col = ind.as_list()
    r = ind.round_value
    n = len(col)
    field = {"open": 1, "high": 2, "low": 3, "close": 4, "volume": 5}
    out = None
    if cls in ("SMA", "EMA", "RMA", "WMA", "VWMA"):
        iv = "close" if cls == "VWMA" else kw.get("input_value", "close")
        xs = [b[field[iv]] for b in base_rows]
        p = ind.period
        for i, v in enumerate(col):
            if v is None:
                continue
            stats["offline_relations_checked"] = stats.get("offline_relations_checked", 0) + 1
            if cls in ("EMA", "RMA"):
                a = (ind.smoothing / (p + 1.0)) if cls == "EMA" else 1.0 / p
                if a > 1:
                    return None
                w = xs[:i + 1]
                slack = rho(r) / a + 1e-9
            else:
                w = xs[max(0, i - p + 1):i + 1]
                slack = rho(r) + 1e-9
            if not (min(w) - slack <= v <= max(w) + slack):
                out = ("average-within-input-range", f"{cls} at {i}: {v} outside [{min(w)}, {max(w)}] (+-{slack:.2g})")
                break
    elif cls == "OBV":
        for i in range(1, n):
            if col[i] is None or col[i - 1] is None:
                continue
            stats["offline_relations_checked"] = stats.get("offline_relations_checked", 0) + 1
            d, v = col[i] - col[i - 1], base_rows[i][5]
            if not any(abs(d - t) <= 2 * rho(r) + 1e-9 for t in (0, v, -v)):
                out = ("obv-step", f"OBV moved by {d} at {i}, candle volume {v}")
                break
    elif cls == "Counter":
        iv = kw["input_value"]
        for i in range(1, n):
            if col[i] is None or col[i - 1] is None:
                continue
            stats["offline_relations_checked"] = stats.get("offline_relations_checked", 0) + 1
            if not (col[i] == col[i - 1] + 1 or col[i] == 0):
                out = ("counter-step", f"Counter {col[i - 1]} -> {col[i]} at {i}")
                break
    if out:
        chk.fail(out[0], ind, None, out[1])


def run_case(case):
    cfg, rows, sch = case["cfg"], case["rows"], case["schedule"]
    cls = cfg["cls"]
    stats = {"binder": [BINDER], "families_seen": [case["family"]], "tfkinds": {case["tfkind"]: 1}}
    viol = []
    total = 0
    for mode in ("incremental", "batch"):
        chk = Checker()
        with SetReadingMonitor(chk.on_write) as mon:
            try:
                if case.get("round_switch") is not None:
                    cut = max(sch["preload"], len(rows) - 12) if mode == "incremental" else len(rows)
                    ind = batch(cfg, rows[:cut])
                    ind.round_value = case["round_switch"]
                    ind.recalculate()
                    for r_ in rows[cut:]:
                        ind.append(encode_row(r_, "candle"))
                    stats["round_switches"] = stats.get("round_switches", 0) + 1
                else:
                    ind = run_schedule(cfg, rows, sch) if mode == "incremental" else batch(cfg, rows)
            except Exception:
                stats["raises_left_to_C09"] = stats.get("raises_left_to_C09", 0) + 1
                continue
        stats["contract_evaluations"] = stats.get("contract_evaluations", 0) + mon.evaluations
        for k, v in chk.evals.items():
            stats.setdefault("predicate_evaluations_by_class", {})[k] = stats.get("predicate_evaluations_by_class", {}).get(k, 0) + v
            stats["predicate_evaluations"] = stats.get("predicate_evaluations", 0) + v
            stats.setdefault("predicates_seen", set()).add(k)
        stats["rounding_checks"] = stats.get("rounding_checks", 0) + chk.rounding_checks
        total += chk.evals.get(cls, 0) + chk.rounding_checks
        if not chk.broken:
            tf = cfg["kw"].get("timeframe")
            drows = [(ts_of(r_[0]), *r_[1:]) for r_ in rows]
            base = resample(drows, tf, cfg["kw"].get("timeframe_fill", False)) if tf else drows
            if len(base) == len(ind.candles):
                offline(cfg, ind, base, chk, stats)
        for pred, kcls, name, idx, msg in chk.broken[:2]:
            viol.append({"monitor": "write-contract" if idx is not None else "offline-column-pass", "sig": f"C10|{pred}|{kcls}",
                         "detail": f"{mode}: {name} at candle {idx}: {msg}; family={case['family']} tfkind={case['tfkind']} cfg={short(cfg, 200)}"})
        if viol:
            break
    return {"violations": viol, "nontrivial": total >= 10, "stats": stats,
            "sample": {"cfg": cfg, "family": case["family"], "tfkind": case["tfkind"], "schedule": {**sch, "chunks": sch["chunks"][:12]}, "n_rows": len(rows), "rows_head": rows[:3]}}
