"""M3 - candle-access tracer.

MonitoredList is a list subclass handed to the object under test (CandleManager and Indicator keep the
identity of a non-empty list they are given). Every _calculate_reading of every Indicator subclass is
wrapped to push the index being computed; every list access made while a computation is on the stack
is attributed to the innermost computation. Recorded per computation: positions read (negative indices
normalised, slices expanded, iteration = full scan).
"""
from __future__ import annotations

import functools

from hxv import boot

boot.boot()

from hexital.core.indicator import Indicator  # noqa: E402

_STACK = []          # (indicator, index) of running _calculate_reading calls
_SINK = None         # active Tracer


class MonitoredList(list):
    __slots__ = ()

    def __getitem__(self, key):
        if _SINK is not None and _STACK:
            n = len(self)
            if isinstance(key, slice):
                rng = range(*key.indices(n))
                _SINK.note(rng, n)
            else:
                try:
                    k = key + n if key < 0 else key
                    _SINK.note((k,), n)
                except TypeError:
                    pass
        return list.__getitem__(self, key)

    def __iter__(self):
        if _SINK is not None and _STACK:
            _SINK.note(range(len(self)), len(self))
        return list.__iter__(self)

    def __reversed__(self):
        if _SINK is not None and _STACK:
            _SINK.note(range(len(self)), len(self))
        return list.__reversed__(self)


def all_indicator_classes():
    seen, todo = [], [Indicator]
    while todo:
        c = todo.pop()
        for s in c.__subclasses__():
            if s not in seen:
                seen.append(s)
                todo.append(s)
    return seen


class Tracer:
    """Context manager: wraps _calculate_reading everywhere, collects reads per (class, index)."""

    def __init__(self):
        self.lookahead = []        # (class name, indicator name, index, position)
        self.depth = {}            # class name -> max look-back depth seen
        self.computations = 0
        self.reads = 0
        self.per_call = None       # optional dict (name, index) -> set(positions) when detail=True
        self._patched = []

    def note(self, positions, n):
        ind, idx = _STACK[-1]
        cname = type(ind).__name__
        for p in positions:
            self.reads += 1
            if p > idx and p < n:
                if len(self.lookahead) < 200:
                    self.lookahead.append((cname, ind.name, idx, p))
                self.lookahead_count = getattr(self, "lookahead_count", 0) + 1
            elif p <= idx:
                d = idx - p
                if d > self.depth.get(cname, -1):
                    self.depth[cname] = d
            if self.per_call is not None:
                self.per_call.setdefault((ind.name, idx), set()).add(p)

    def __enter__(self):
        global _SINK
        for cls in all_indicator_classes():
            if "_calculate_reading" not in cls.__dict__:
                continue
            orig = cls.__dict__["_calculate_reading"]

            def make(orig):
                @functools.wraps(orig)
                def traced(self, index, *a, **k):
                    _STACK.append((self, index))
                    tr = _SINK
                    if tr is not None:
                        tr.computations += 1
                    try:
                        return orig(self, index, *a, **k)
                    finally:
                        _STACK.pop()
                return traced

            setattr(cls, "_calculate_reading", make(orig))
            self._patched.append((cls, orig))
        _SINK = self
        return self

    def __exit__(self, *exc):
        global _SINK
        _SINK = None
        for cls, orig in self._patched:
            setattr(cls, "_calculate_reading", orig)
        self._patched.clear()
        del _STACK[:]
        return False


class DirectCall:
    """Stands in for an indicator when a pattern/movement function is called directly at an index."""

    def __init__(self, name):
        self.name = name


class direct_call:
    def __init__(self, name, index):
        self.entry = (DirectCall(name), index)

    def __enter__(self):
        _STACK.append(self.entry)

    def __exit__(self, *exc):
        _STACK.pop()
        return False


class ReadSink:
    """Minimal sink for direct calls: counts reads and look-ahead reads without patching any class."""

    def __init__(self):
        self.reads = 0
        self.lookahead_count = 0
        self.lookahead = []

    def note(self, positions, n):
        ind, idx = _STACK[-1]
        for p in positions:
            self.reads += 1
            if idx < p < n:
                self.lookahead_count += 1
                if len(self.lookahead) < 50:
                    self.lookahead.append((ind.name, idx, p))

    def __enter__(self):
        global _SINK
        self._prev = _SINK
        _SINK = self
        return self

    def __exit__(self, *exc):
        global _SINK
        _SINK = self._prev
        return False
