"""M1/M8 - structural digest of a whole object graph, read through vars() only (never through the
accessors under test). Identity aware: shared references are recorded as references, so that aliasing
changes are visible and cycles terminate."""
from __future__ import annotations

from datetime import date, datetime, timedelta
from enum import Enum

from hxv import boot

boot.boot()


def structure(root):
    memo = {}
    order = []

    def walk(o):
        if o is None or isinstance(o, (bool, int, str, bytes)):
            return o
        if isinstance(o, float):
            return repr(o)
        if isinstance(o, (datetime, date, timedelta)):
            return repr(o)
        if isinstance(o, Enum):
            return f"enum:{o!r}"
        oid = id(o)
        if oid in memo:
            return ("ref", memo[oid])
        if callable(o) and not hasattr(o, "__dict__"):
            return f"callable:{getattr(o, '__qualname__', repr(o))}"
        memo[oid] = len(memo)
        order.append(o)  # keep alive so ids stay unique during the walk
        if isinstance(o, dict):
            return ("dict", [(walk(k), walk(v)) for k, v in o.items()])
        if isinstance(o, (list, tuple)):
            return (type(o).__name__ if type(o) in (list, tuple) else "list", [walk(v) for v in o])
        if isinstance(o, (set, frozenset)):
            return ("set", sorted((repr(walk(v)) for v in o)))
        if callable(o) and hasattr(o, "__qualname__"):
            return f"callable:{o.__qualname__}"
        if hasattr(o, "__dict__"):
            return (type(o).__name__, [(k, walk(v)) for k, v in vars(o).items()])
        return repr(o)

    return walk(root)
