"""M6 - coverage probe: distinct executed lines per file (sys.monitoring LINE, DISABLE after first hit)."""
from __future__ import annotations

import ast
import os
import sys

from hxv import boot

TOOL = 3


class LineCoverage:
    def __init__(self, rel_files):
        self.files = {os.path.join(boot.REPO, f): f for f in rel_files}
        self.lines = {f: set() for f in rel_files}
        self.active = False

    def __enter__(self):
        mon = sys.monitoring
        try:
            mon.use_tool_id(TOOL, "hxv-cover")
        except ValueError:
            return self  # tool id busy: coverage not measured, floors that need it become inconclusive
        self.active = True
        files, lines = self.files, self.lines

        def on_line(code, lineno):
            rel = files.get(code.co_filename)
            if rel is not None:
                lines[rel].add(lineno)
            return mon.DISABLE

        mon.register_callback(TOOL, mon.events.LINE, on_line)
        mon.set_events(TOOL, mon.events.LINE)
        return self

    def __exit__(self, *exc):
        if self.active:
            mon = sys.monitoring
            mon.set_events(TOOL, 0)
            mon.register_callback(TOOL, mon.events.LINE, None)
            mon.free_tool_id(TOOL)
            mon.restart_events()
            self.active = False
        return False


def branch_arms(rel_file, func_name):
    """First body line of every arm of every if/elif chain inside func_name (best effort, [] on failure)."""
    try:
        tree = ast.parse(open(os.path.join(boot.REPO, rel_file)).read())
    except Exception:
        return []
    arms = []

    def walk_if(node):
        arms.append(node.body[0].lineno)
        if len(node.orelse) == 1 and isinstance(node.orelse[0], ast.If):
            walk_if(node.orelse[0])
        elif node.orelse:
            arms.append(node.orelse[0].lineno)

    for fn in ast.walk(tree):
        if isinstance(fn, ast.FunctionDef) and fn.name == func_name:
            for node in ast.walk(fn):
                if isinstance(node, ast.While):
                    for st in node.body:
                        if isinstance(st, ast.If) and st.orelse:
                            chain = []
                            n = st
                            while True:
                                chain.append(n)
                                if len(n.orelse) == 1 and isinstance(n.orelse[0], ast.If):
                                    n = n.orelse[0]
                                else:
                                    break
                            if len(chain) >= 3:
                                walk_if(st)
    return arms
