"""M5 - write contracts on the real classes, attached from the harness.

icontract (named predicates, explicit error=) when importable; otherwise a built-in wrapper with the
same semantics. Predicates *record and return True*: a raising contract would abort the very
execution it observes. Evaluation counters are part of the evidence (zero => inconclusive).
"""
from __future__ import annotations

import functools

from hxv import boot

boot.boot()

from hexital.core.indicator import Indicator  # noqa: E402

try:
    import icontract

    BINDER = "icontract " + getattr(icontract, "__version__", "?")
except Exception:  # pragma: no cover - only without .deps
    icontract = None
    BINDER = "builtin-wrapper"


class ContractBroken(AssertionError):
    pass


_ORIG = {}


def _restore(cls, name):
    if (cls, name) in _ORIG:
        setattr(cls, name, _ORIG.pop((cls, name)))


class SetReadingMonitor:
    """Observes every Indicator._set_reading (top-level, sub and managed indicators alike)."""

    def __init__(self, on_write):
        self.on_write = on_write
        self.evaluations = 0

    def __enter__(self):
        mon = self
        orig = Indicator.__dict__["_set_reading"]
        _ORIG[(Indicator, "_set_reading")] = orig

        def written_reading_observed(self, reading, index=None):
            mon.evaluations += 1
            mon.on_write(self, reading, index)
            return True

        if icontract is not None:
            wrapped = icontract.require(written_reading_observed, error=ContractBroken)(orig)
        else:
            @functools.wraps(orig)
            def wrapped(self, reading, index=None):
                written_reading_observed(self, reading, index)
                return orig(self, reading, index)

        Indicator._set_reading = wrapped
        return self

    def __exit__(self, *exc):
        _restore(Indicator, "_set_reading")
        return False
