"""M4 - work meter: counts interpreter events (function entries, executed lines) inside the library,
per group of source files, with sys.monitoring. Logical work only - no wall clock."""
from __future__ import annotations

import os
import sys

from hxv import boot

TOOL = 2
MANAGER_FILES = ("core/candle_manager.py", "core/candle.py", "core/candlestick_type.py", "utils/timeframe.py", "utils/candlesticks.py")


def group_of(path):
    root = os.path.join(boot.REPO, "hexital") + os.sep
    if not path.startswith(root):
        return None
    rel = path[len(root):]
    if rel in MANAGER_FILES or rel.startswith("candlesticks/"):
        return "manager"
    if rel == "core/hexital.py":
        return "hexital"
    return "indicator"


class WorkMeter:
    def __init__(self):
        self.groups = {}
        self.reset()
        self.active = False

    def reset(self):
        self.calls = {"indicator": 0, "manager": 0, "hexital": 0}
        self.lines = {"indicator": 0, "manager": 0, "hexital": 0}
        self.calc = {}      # qualname of *_calculate_reading / convert_candle -> entries

    def _group(self, filename):
        g = self.groups.get(filename, 0)
        if g == 0:
            g = self.groups[filename] = group_of(filename)
        return g

    def __enter__(self):
        mon = sys.monitoring
        mon.use_tool_id(TOOL, "hxv-work")
        ev = mon.events

        def on_start(code, offset):
            g = self._group(code.co_filename)
            if g is None:
                return mon.DISABLE
            self.calls[g] += 1
            if code.co_name in ("_calculate_reading", "convert_candle"):
                q = code.co_qualname
                self.calc[q] = self.calc.get(q, 0) + 1

        def on_line(code, line):
            g = self._group(code.co_filename)
            if g is None:
                return mon.DISABLE
            self.lines[g] += 1

        mon.register_callback(TOOL, ev.PY_START, on_start)
        mon.register_callback(TOOL, ev.LINE, on_line)
        mon.set_events(TOOL, ev.PY_START | ev.LINE)
        self.active = True
        return self

    def __exit__(self, *exc):
        mon = sys.monitoring
        mon.set_events(TOOL, 0)
        mon.register_callback(TOOL, mon.events.PY_START, None)
        mon.register_callback(TOOL, mon.events.LINE, None)
        mon.free_tool_id(TOOL)
        self.active = False
        return False

    def measure(self, fn):
        self.reset()
        fn()
        return {"calls": dict(self.calls), "lines": dict(self.lines), "calc": dict(self.calc)}
