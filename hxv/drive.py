"""Drivers: run an append schedule / a batch on the real classes."""
from __future__ import annotations

from hxv.core import encode_row, rows_to_candles
from hxv.gen.configs import build


def enc_for(enc, pos):
    if enc == "mixed":
        return ("candle", "dict", "list")[pos % 3]
    return enc


def encode_chunk(rows, pos, size, enc):
    """Value handed to append() for rows[pos:pos+size]; single elements alternate bare / wrapped."""
    if size == 0:
        return []
    e = enc_for(enc, pos)
    items = [encode_row(r, e) for r in rows[pos:pos + size]]
    if size == 1 and pos % 2 == 0:
        return items[0]
    return items


def batch(cfg, rows, **extra):
    ind = build(cfg, candles=rows_to_candles(rows), **extra)
    ind.calculate()
    return ind


def run_schedule(cfg, rows, schedule, on_step=None, **extra):
    pre = schedule["preload"]
    ind = build(cfg, candles=rows_to_candles(rows[:pre]), **extra)
    if schedule.get("precalc"):
        ind.calculate()
    if on_step:
        on_step(ind, pre)
    pos = pre
    for size in schedule["chunks"]:
        ind.append(encode_chunk(rows, pos, size, schedule.get("enc", "candle")))
        pos += size
        if on_step:
            on_step(ind, pos)
    return ind
